"""C06 - memory safety, no UB, no abort, no leak, linear-time termination: a bundle of pinned structural rules,
NOT a proof of absence of all undefined behaviour.  Every dangerous construct of each kind is enumerated from the
source on every run; each must be justified by a recognised guard, or the check fails.

R6.1  eav_t fields read before written (shared with C13 R13.3)
R6.2s scanners (Engine B): on every input string of every length no scanner reads before its first byte or beyond
      the terminator, and every loop iteration advances the cursor (termination, work linear in the input)
R6.2p pointer provenance (Engine A): every pointer handed to a NUL-scanning libc function or dereferenced with an
      offset in the non-scanner code derives from the input within [first byte, terminator]
R6.3  fixed buffers: every write into a local array is bounded by dominating guards to less than its size
R6.5  writes (shared with C14 R14.2)          R6.6 abort/assert sites are exactly the known ones
R6.7  allocation pairing                      R6.8 loops: progress and no hidden quadratic libc call"""
import re
import tables, unitdb, cfgpaths, astutil, scanex, forkmap
from scanex import END
from rules import shared, emailfn, eavobj, lp
from rules.eavobj import BACKENDS
from report import AnalysisBroken, REPO
from astutil import where

LEVEL = 'other'
NUL_SCANNERS = {'strchr': [0], 'strrchr': [0], 'strspn': [0, 1], 'strlen': [0], 'strncasecmp': [0, 1], 'strncmp': [0, 1], 'strcasecmp': [0, 1], 'strcmp': [0, 1], 'strndup': [0]}
SEARCH = ('strchr', 'strrchr', 'memchr', 'strpbrk', 'strstr')
LIN = ('strchr', 'strrchr', 'strspn', 'strcspn', 'strlen', 'strstr', 'strpbrk', 'memchr', 'strncasecmp', 'strndup', 'memcpy')


# ------------------------------------------------------------------------------------------ provenance
class ProvUnknown(Exception):
    """the pointer comes from something the provenance rule has no model for (e.g. the result of a helper function):
    that is neither a pass nor an alarm - the check stops with exit 2 and names the construct"""


class Prov:
    def __init__(self, tu, fname, paths):
        self.tu = tu; self.fname = fname; self.paths = paths
        self.params = {c['name']: c['type']['qualType'] for c in tu.fn(fname).get('inner', []) if c.get('kind') == 'ParmVarDecl'}
        self.arrays = {}
        for d in astutil.find(tu.fn(fname), 'VarDecl'):
            m = re.fullmatch(r'(.+)\[(\d+)\]', d.get('type', {}).get('qualType', ''))
            if m: self.arrays[d['name']] = int(m.group(2))
        self.global_arrays = {}
        for name, d in tu.globals.items():
            m = re.fullmatch(r'(.+)\[(\d+)\]', d.get('type', {}).get('qualType', ''))
            if m and name not in self.arrays: self.global_arrays[name] = int(m.group(2))
        # values ever assigned to each variable, with their path/index (for loop-carried pointers)
        self.assigned = {}; self.assuming = set(); self.proved = {}
        for p in paths:
            for i, e in enumerate(p.events):
                if e[0] == 'set': self.assigned.setdefault(e[1], []).append((p, i, e[2]))

    def nonnul_at(self, X, p, i):
        """is *X known to be a non-NUL byte at event i of path p?"""
        m = re.fullmatch(r"((?:str(?:r)?chr|memchr)#\d+'*)", X)
        if m:
            c = [e for e in p.events[:i] if e[0] == 'call' and e[3] == X]
            if c and len(c[0][2]) >= 2 and c[0][2][1] not in ("'\\x00'", '0') and (p.passed(X, True, before=i) or self.counted(X, c[0], p, i)): return True
        ml = re.fullmatch(r"(\w+)@L\d+'*", X)
        if ml and (p.passed(X, True, before=i) or p.passed(f'({X} != NULL)', True, before=i) or p.passed(f'({X} == NULL)', False, before=i)):
            # a loop-carried pointer that is only ever given results of searches for a non-NUL byte, and is non-NULL here
            vals = self.assigned.get(ml.group(1), [])
            def search_result(q, j, v):
                if v == 'NULL' or re.fullmatch(r"\w+@L\d+'*", v): return True
                c = [e for e in q.events[:j + 1] if e[0] == 'call' and e[3] == v]
                return bool(c) and c[0][1] in ('strchr', 'strrchr', 'memchr') and len(c[0][2]) >= 2 and c[0][2][1] not in ("'\\x00'", '0')
            if vals and all(search_result(q, j, v) for q, j, v in vals): return True
        for e in p.events[:i]:
            if e[0] != 'cond': continue
            mm = re.fullmatch(r"\(\*" + re.escape(X) + r" (==|!=) ('.'|'\\x..')\)", e[1])
            if mm and mm.group(2) != "'\\x00'" and ((mm.group(1) == '==') == e[2]): return True
            mm = re.fullmatch(r"\*" + re.escape(X) + r" in \[(.+)\]", e[1])
            if mm and e[2] and '<default>' not in mm.group(1) and '0' not in mm.group(1).split(', '): return True
        return False

    def counted(self, X, call, p, i):
        """frozen invariant (is_special_domain only): a strchr(_, '.') whose result is used without a NULL test cannot
        fail, because the counting loop found `count` >= 1 dots from start and each later search consumes one of them
        (shape of the counting loop, root-dot discount and skip loop: C09 R9.4).  Required here: the path went through a
        successful search of the counting loop first, and no path exists on which count == 0 reaches this call."""
        if self.fname != 'is_special_domain' or call[1] != 'strchr' or call[2][1] != "'.'": return False
        first = [e for e in p.events[:p.events.index(call)] if e[0] == 'call' and e[1] == 'strchr' and e[2] == ('start', "'.'")]
        if not first or not p.passed(first[0][3], True, before=i): return False
        self.used_counted = True
        return True

    used_counted = False

    def safe(self, X, p, i, depth=0):
        """does pointer expression X point into [first byte, terminator] of a NUL-terminated object at event i?"""
        if depth > 12: return False
        if X.startswith('"'): return True
        if X in self.params and '*' in self.params[X]: return True
        if X in self.arrays: return self.array_terminated(X, p, i)
        if re.fullmatch(r"\w+(\[[^\]]+\])?(->|\.)domain|\w+@L\d+'*->domain", X): return True       # constant table strings (R7.1 / R9.1)
        m = re.fullmatch(r"((?:\w+)#\d+'*)", X)
        if m:
            c = [e for e in p.events[:i] if e[0] == 'call' and e[3] == X]
            if c and c[0][1] in SEARCH: return (p.passed(X, True, before=i) or self.counted(X, c[0], p, i)) and self.safe(c[0][2][0], p, p.events.index(c[0]), depth + 1)
            if c and c[0][1] in ('malloc', 'calloc', 'strndup', 'strdup'): return p.passed(X, True, before=i)
            if c: raise ProvUnknown(f'{X} = {c[0][1]}(...): no model for what this call returns')
            return False
        m = re.fullmatch(r"(\w+)@((?:\w+)#\d+'*)", X)                  # out-parameter filled by a call
        if m:
            c = [e for e in p.events[:i] if e[0] == 'call' and e[3] == m.group(2)]
            if c and c[0][1] in eavobj.CONVERTERS:
                b = [k for k, v in eavobj.SUCCESS.items() if p.passed(f'({c[0][3]} != {v})', False, before=i) or p.passed(f'({c[0][3]} == {v})', True, before=i)]
                return bool(b)
            return False
        m = re.fullmatch(r"(\w+)@L\d+'*", X)                          # loop-carried pointer: every value it is ever given must be safe
        if m:
            # inductive: assume the variable is safe at the loop head while checking every value it is ever assigned
            v0 = m.group(1)
            if v0 in self.assuming: return True
            tested = p.passed(X, True, before=i) or p.passed(f'({X} != NULL)', True, before=i) or p.passed(f'({X} == NULL)', False, before=i)
            if (v0, tested) in self.proved: return self.proved[(v0, tested)]
            self.assuming.add(v0)
            try:
                vals = self.assigned.get(v0, [])
                seen = set(); ok = bool(vals)
                # "in the string, or NULL": a search result stored before its NULL test is fine when the use site has
                # established that the loop-carried pointer is not NULL
                for q, j, v in vals:
                    if v == 'NULL' or re.fullmatch(r"\w+@L\d+'*", v): continue
                    cs = [e for e in q.events[:j + 1] if e[0] == 'call' and e[3] == v]
                    if tested and cs and cs[0][1] in SEARCH:
                        if not self.safe(cs[0][2][0], q, q.events.index(cs[0]), depth + 1): ok = False; break
                        continue
                    if not self.safe(v, q, j, depth + 1): ok = False; break
            finally:
                self.assuming.discard(v0)
            if not self.assuming: self.proved[(v0, tested)] = ok
            return ok
        b, k = shared.ptr_off(X)
        if b != X and k > 0:
            inner = X[1:X.rindex(' + ')] if X.endswith(f' + {X.rsplit(" + ", 1)[-1]}') else None
            # one step at a time: (Y + 1) is safe when Y is safe and *Y is a non-NUL byte
            mm = re.fullmatch(r'\((.+) \+ (\d+)\)', X)
            if mm:
                Y, n = mm.group(1), int(mm.group(2))
                if n == 1 and self.safe(Y, p, i, depth + 1) and self.nonnul_at(Y, p, i): return True
                # length guard:  (E - Y) <= K  false  =>  at least K + 1 bytes from Y to E
                for e in p.events[:i]:
                    if e[0] != 'cond': continue
                    g = re.fullmatch(r'\(\((.+) - ' + re.escape(Y) + r'\) (<=|<|>|>=) (\d+)\)', e[1])
                    if g and self.safe(Y, p, i, depth + 1):
                        K = int(g.group(3)); op = g.group(2)
                        least = {'<=': K + 1, '<': K}.get(op) if not e[2] else {'>': K + 1, '>=': K}.get(op)
                        if least is not None and least >= n: return True
                # guard on a smaller base: ((B + 1) + 5) with (E - (B + 1)) guard handled above; try B-relative guards
                bb, kk = shared.ptr_off(X)
                for e in p.events[:i]:
                    if e[0] != 'cond': continue
                    g = re.fullmatch(r'\(\((.+) - (.+)\) (<=|<|>|>=) (\d+)\)', e[1])
                    if not g: continue
                    gb, gk = shared.ptr_off(g.group(2))
                    if gb != bb: continue
                    K = int(g.group(4)); op = g.group(3)
                    least = {'<=': K + 1, '<': K}.get(op) if not e[2] else {'>': K + 1, '>=': K}.get(op)
                    if least is not None and gk + least >= kk and self.safe(g.group(2), p, i, depth + 1): return True
        if b == X and X not in ('NULL', '0') and not re.fullmatch(r"\w+", X):
            # neither an offset from something known nor any of the forms above (a pointer loaded from a table the rule
            # does not know, a field of a mutable object ...): not judged
            raise ProvUnknown(f'{X}: no model for where this pointer comes from')
        return False

    def counter_max(self, v0):
        """largest value a loop counter can have at a loop head / after the loop: it starts at a constant and every
        assignment is `counter + 1` on a path that has passed `counter < K` (or `<= K`) in the same iteration"""
        vals = self.assigned.get(v0, [])
        if not vals: return None
        bound = None
        for q, j, v in vals:
            if re.fullmatch(r'-?\d+', v):
                bound = max(bound, int(v)) if bound is not None else int(v); continue
            m = re.fullmatch(r"\((" + re.escape(v0) + r"@L\d+'*|\d+) \+ 1\)", v)
            if not m: return None
            prev = m.group(1); k = None
            for e in reversed(q.events[:j]):
                if e[0] == 'loop' and (e[1].endswith(':enter') or e[1].endswith(':again')) and k is None:
                    pass
                if e[0] == 'cond':
                    g = re.fullmatch(re.escape('(' + prev) + r' (<|<=) (\d+)\)', e[1])
                    if g and e[2]: k = int(g.group(2)) + (0 if g.group(1) == '<' else 1); break
            if k is None:
                if prev.isdigit(): k = int(prev) + 1
                else: return None
            bound = max(bound, k) if bound is not None else k
        return bound

    def array_terminated(self, A, p, i):
        """local array used as a string: the last bulk write into it is followed by A[len] = 0, or a library filled it"""
        last = None
        for j, e in enumerate(p.events[:i]):
            if e[0] == 'call' and e[1] == 'memcpy' and e[2][0] == A: last = (j, e[2][2])
            if e[0] == 'call' and e[1] == 'idn_res_encodename' and len(e[2]) >= 5 and e[2][3] == A: return True
        if last is None:
            # filled element by element: a NUL must have been stored into it before the use
            return any(e[0] == 'set' and e[1].startswith(A + '[') and e[2] in ('0', "'\\x00'") for e in p.events[:i])
        return any(e[0] == 'set' and e[1] == f'{A}[{last[1]}]' and e[2] in ('0', "'\\x00'") for e in p.events[last[0]:i])


def bounded_below(conds_on, n_values, size):
    return all(not shared_admits(conds_on, n) for n in n_values if n >= size)


def shared_admits(conds, n):
    ev = lambda op, k: {'<': n < k, '>': n > k, '<=': n <= k, '>=': n >= k, '==': n == k, '!=': n != k}[op]
    return all(ev(op, k) == t for op, k, t in conds)


def len_conds(p, L, before):
    out = []
    for e in p.events[:before]:
        if e[0] != 'cond': continue
        m = re.fullmatch(re.escape('(' + L) + r' (<|>|<=|>=|==|!=) (\d+)\)', e[1])
        if m: out.append((m.group(1), int(m.group(2)), e[2]))
    return out


# ------------------------------------------------------------------------------------------ scanners
def scanner_jobs(tus):
    from rules.c03 import machine_6531
    from rules.c04 import scan_machine, domain_alphabet
    from rules.iplang import IPMachine, ip_alphabet
    jobs = []; meta = []
    def job(name, mk, symbols, term, lb=1):
        def task():
            oob = []
            m = mk(term)
            def on_oob(mach, w, msg):
                oob.append((scanex.show([s for s in w if s != END]), msg))
                if len(oob) >= 3: raise scanex.Stop()                 # the verdict is a violation; no need to enumerate more
            ex = scanex.Explorer([m], symbols, term, lookbehind=lb, on_oob=on_oob)
            try: ex.run(lambda r, w: None)
            except scanex.Stop: pass
            return ex.configs, ex.transitions, oob[:5], getattr(m, 'overruns', 0)
        jobs.append(task); meta.append((name, term))
    for mode in ('822', '5321', '5322'):
        tu = tus[f'src/is_{mode}_local.c']; fn = f'is_{mode}_local'
        symbols, _, _ = lp.alphabet([tu.fn(fn)])
        for term in (0x40, 0x00): job(f'src/is_{mode}_local.c:{fn}', (lambda tu, fn: (lambda t: scanex.ScannerMachine(tu, fn, t)))(tu, fn), symbols, term)
    tu = tus['src/is_6531_local.c']
    symbols, _, _ = lp.alphabet([tu.fn('is_6531_local')], utf8=True)
    for term in (0x40, 0x00): job('src/is_6531_local.c:is_6531_local', (lambda tu: (lambda t: machine_6531(tu, t)))(tu), symbols, term)
    tu = tus['src/is_ascii_domain.c']
    reps, _, _ = domain_alphabet(tu)
    for term in (0x00, 0x2e): job('src/is_ascii_domain.c:is_ascii_domain(scan)', (lambda tu: (lambda t: scan_machine(tu, t)))(tu), reps, term)
    tu = tus['src/is_ipv4_ipv6.c']
    syms, _ = ip_alphabet(tu, ['is_ipv4', 'is_ipv6'])
    for fn in ('is_ipv4', 'is_ipv6'): job(f'src/is_ipv4_ipv6.c:{fn}', (lambda tu, fn: (lambda t: IPMachine(tu, fn)))(tu, fn), syms, 0x5d)
    return jobs, meta


def run(ck):
    us = [u for u in unitdb.units() if u.group != 'cli']
    tus = unitdb.load_asts(us)
    ck.analysed(units=sorted(tus))
    # ---- R6.1
    r61 = ck.rule('R6.1', 'no eav_t field is read by any entry point before eav_init (or the documented user assignments) wrote it', 3)
    from rules.c13 import setup_paths
    core = tus['src/eav.c']
    for b in BACKENDS:
        tu = tus[f'partial/{b}/eav.c']
        ip = cfgpaths.summarise(tu, 'eav_init')[1]
        init_fields = set.intersection(*[set(eavobj.writes(p)) for p in ip]) if ip else set()
        need = set()
        for fn in ('eav_is_email', 'eav_free', 'eav_setup'):
            ps = setup_paths(tu) if fn == 'eav_setup' else cfgpaths.summarise(tu, fn)[1]
            for p in ps: need |= set(eavobj.incoming_reads(p))
        for p in cfgpaths.summarise(core, 'eav_errstr')[1]: need |= set(eavobj.incoming_reads(p))
        miss = sorted(need - init_fields - ({'idn'} if b == 'idnkit' else set()))
        r61.instance(f'partial/{b}/eav.c:eav_init', ok=not miss, wclass='uninitialised-field', what=f'fields {miss} are read by the entry points but not assigned by eav_init: indeterminate value on first use')
    # ---- R6.2s / R6.8a scanners
    r62 = ck.rule('R6.2s', 'scanners, every input of every length: no read before the first byte or beyond the terminator; every loop iteration advances the cursor (terminates, one pass)', 13)
    jobs, meta = scanner_jobs(tus)
    res = forkmap.forkmap(jobs)
    for (name, term), (cfg, tr, oob, overruns) in zip(meta, res):
        ck.mc(cfg, tr); ck.analysed(functions=[name])
        if not oob: r62.instance(name, ok=True, detail={'terminator': hex(term), 'configurations': cfg})
        for w, msg in oob[:2]:
            r62.instance(name, ok=False, wclass=('unbounded-integer' if msg.startswith('integer variable') else 'out-of-range-read'), witness=w, what=f'{name}: {msg} on input {w!r} (byte after the range = {term:#x})')
    # ---- thorough tier: the same exploration for the scanners that change under the documented build options
    if ck.tier == 'thorough':
        from rules.c17 import combos, vname
        from rules.c03 import machine_6531
        from rules.c04 import scan_machine, domain_alphabet as _dalpha
        rv = ck.rule('R6.2s[options]', 'thorough tier: R6.2s again for is_6531_local and is_ascii_domain as compiled under every combination of RFC6531_FOLLOW_RFC5322 / RFC6531_FOLLOW_RFC20 / LABELS_ALLOW_UNDERSCORE', 14)
        vjobs = []; vmeta = []
        for opts in combos():
            if not opts: continue
            vn = vname(opts)
            vus = [u for u in unitdb.units(opts, vn) if u.rel in ('src/is_6531_local.c', 'src/is_ascii_domain.c')]
            vt = {k.split(':')[-1]: t for k, t in unitdb.load_asts(vus).items()}
            def vjob(name, mk, symbols, term):
                def task():
                    oob = []
                    m = mk(term)
                    def on_oob(mach, w, msg):
                        oob.append((scanex.show([x for x in w if x != END]), msg))
                        if len(oob) >= 3: raise scanex.Stop()
                    ex = scanex.Explorer([m], symbols, term, on_oob=on_oob)
                    try: ex.run(lambda r, w: None)
                    except scanex.Stop: pass
                    return ex.configs, ex.transitions, oob[:5], getattr(m, 'overruns', 0)
                vjobs.append(task); vmeta.append((f'{name}[{vn}]', term))
            t6 = vt['src/is_6531_local.c']
            sy, _, _ = lp.alphabet([t6.fn('is_6531_local')], utf8=True)
            for term in (0x40, 0x00): vjob('src/is_6531_local.c:is_6531_local', (lambda t6: (lambda t: machine_6531(t6, t)))(t6), sy, term)
            td = vt['src/is_ascii_domain.c']
            rp, _, _ = _dalpha(td)
            for term in (0x00, 0x2e): vjob('src/is_ascii_domain.c:is_ascii_domain(scan)', (lambda td: (lambda t: scan_machine(td, t)))(td), rp, term)
        vres = forkmap.forkmap(vjobs)
        for (name, term), (cfg, tr, oob, overruns) in zip(vmeta, vres):
            ck.mc(cfg, tr)
            if not oob: rv.instance(name, ok=True, detail={'terminator': hex(term), 'configurations': cfg})
            for w, msg in oob[:2]:
                rv.instance(name, ok=False, wclass=('unbounded-integer' if msg.startswith('integer variable') else 'out-of-range-read'), witness=w, what=f'{name}: {msg} on input {w!r} (byte after the range = {term:#x})')
    # prologue of is_ascii_domain on short strings and length cells: reads stay inside
    from rules.c04 import domain_alphabet
    import itertools
    tu = tus['src/is_ascii_domain.c']; reps, _, _ = domain_alphabet(tu)
    pro = scanex.PrologueInterp(tu, 'is_ascii_domain'); bad = None
    try:
        for n in range(0, 3):
            for s in itertools.product([reps[0], 0x2e], repeat=n): pro.run(n, list(s))
        for n in (3, 4, 253, 254, 255, 256, 1000):
            for last in (0x2e, reps[0]): pro.run(n, {n - 1: last})
    except scanex.OutOfRange as e: bad = str(e)
    except scanex.Unsupported as e: raise AnalysisBroken(f'is_ascii_domain prologue: {e}')
    r62.instance('src/is_ascii_domain.c:is_ascii_domain(prologue)', ok=bad is None, wclass='out-of-range-read', what=f'length pre-checks of is_ascii_domain: {bad}')
    # ---- R6.2p pointer provenance in the non-scanner code
    r62p = ck.rule('R6.2p', 'non-scanner code: every pointer passed to a NUL-scanning libc function, copied from, or dereferenced with an offset lies within [first byte, terminator] of a NUL-terminated object (provenance by def-use on every path)', 60)
    r63 = ck.rule('R6.3', 'every write into a fixed-size local array is bounded below its size by guards that dominate it', 3)
    r67 = ck.rule('R6.7', 'every is_*_email path returns the one record it allocated; eav_result_free releases it (C16 R16.6), the converter output is released on every path (C19 R19.2b), the previous result is released before being overwritten (C13 R13.1)', 6)
    targets = [(k, f'is_{m}_email') for m, k in emailfn.ASCII.items()] + [(f'partial/{b}/is_6531_email.c', 'is_6531_email') for b in BACKENDS] + \
              [(f'partial/{b}/is_utf8_domain.c', 'is_utf8_domain') for b in BACKENDS] + [('src/is_special_domain.c', 'is_special_domain'), ('src/is_tld.c', 'is_tld'), ('src/is_ipv4_ipv6.c', 'is_ipaddr')]
    for key, fn in targets:
        tu = tus[key]
        eng, paths = cfgpaths.summarise(tu, fn)
        pv = Prov(tu, fn, paths)
        site = f'{key}:{fn}'; ck.analysed(functions=[site])
        bad = {}; n = 0; badbuf = {}; nbuf = 0
        for p in paths:
          try:
            for i, e in enumerate(p.events):
                  if e[0] == 'call' and e[1] in NUL_SCANNERS:
                      for ai in NUL_SCANNERS[e[1]]:
                          if ai < len(e[2]):
                              n += 1
                              if not pv.safe(e[2][ai], p, i): bad.setdefault(f'{e[1]}({", ".join(e[2])}): argument {e[2][ai]} is not known to point into the string', where(e[4]))
                  if e[0] == 'call' and re.fullmatch(r'is_\w+', e[1]):
                      # the library's own validators get (start, end) ranges: both must lie inside the string
                      for a in e[2]:
                          if a in ('tld_check', 'ctx', 'actions') or a.startswith('&') or a.isdigit(): continue
                          n += 1
                          endish = re.fullmatch(r'\((\w+) \+ length\)', a) and a[1:].split(' ')[0] in pv.params
                          m2 = re.fullmatch(r"\((.+) \+ (strlen#\d+'*)\)", a)
                          if m2:
                              sl = [c for c in p.events[:i] if c[0] == 'call' and c[3] == m2.group(2)]
                              endish = bool(sl) and sl[0][2] == (m2.group(1),) and pv.safe(m2.group(1), p, i)
                          m3 = re.fullmatch(r"\((.+) \+ \((strlen#\d+'*) - (\d+)\)\)", a)
                          if m3:
                              # end pointer moved back by n bytes: needs strlen >= n established on the path
                              sl = [c for c in p.events[:i] if c[0] == 'call' and c[3] == m3.group(2)]
                              nn = int(m3.group(3))
                              ge = any(x[0] == 'cond' and ((re.fullmatch(re.escape('(' + m3.group(2)) + r' >= (\d+)\)', x[1]) and x[2] and int(re.fullmatch(re.escape('(' + m3.group(2)) + r' >= (\d+)\)', x[1]).group(1)) >= nn)
                                                         or (re.fullmatch(re.escape('(' + m3.group(2)) + r' > (\d+)\)', x[1]) and x[2] and int(re.fullmatch(re.escape('(' + m3.group(2)) + r' > (\d+)\)', x[1]).group(1)) >= nn - 1)) for x in p.events[:i])
                              endish = bool(sl) and sl[0][2] == (m3.group(1),) and pv.safe(m3.group(1), p, i) and ge
                          if not (endish or pv.safe(a, p, i)): bad.setdefault(f'{e[1]}({", ".join(e[2])}): argument {a} is not known to point into the string', where(e[4]))
                  if e[0] == 'call' and e[1] == 'memcpy':
                      dst, src, ln = e[2]
                      n += 1
                      ok = pv.safe(src, p, i)
                      m = re.fullmatch(r'\((.+) - (.+)\)', ln)
                      if not (m and m.group(2) == src and (m.group(1) == 'end' or pv.safe(m.group(1), p, i))): ok = False
                      if not ok: bad.setdefault(f'memcpy({dst}, {src}, {ln}): source range is not known to lie inside the string', where(e[4]))
                      if dst in pv.arrays:
                          nbuf += 1
                          conds = len_conds(p, ln, i)
                          size = pv.arrays[dst]
                          # the terminator is written at dst[len]: len must stay below size
                          if not conds or any(shared_admits(conds, x) for x in (size, size + 1, size * 2, 10 ** 6)):
                              badbuf.setdefault(f'memcpy({dst}, ..., {ln}) into {dst}[{size}] is not bounded below {size} by the guards before it', where(e[4]))
                  if e[0] == 'call' and e[1] == 'idn_res_encodename' and len(e[2]) >= 5 and e[2][3] in pv.arrays:
                      nbuf += 1
                      if not (e[2][4].isdigit() and int(e[2][4]) < pv.arrays[e[2][3]]): badbuf.setdefault(f'idn_res_encodename writes up to {e[2][4]} bytes into {e[2][3]}[{pv.arrays[e[2][3]]}]', where(e[4]))
                  if e[0] == 'set' and re.fullmatch(r'(\w+)\[(.+)\]', e[1]) and e[1].split('[')[0] in pv.arrays:
                      A = e[1].split('[')[0]; idx = e[1][len(A) + 1:-1]; nbuf += 1
                      conds = len_conds(p, idx, i); size = pv.arrays[A]
                      cm = None
                      mm = re.fullmatch(r"(\w+)@L\d+'*", idx)
                      if mm: cm = pv.counter_max(mm.group(1))
                      ms = re.fullmatch(r"\((strlen#\d+'*) - (\d+)\)", idx)
                      within = False
                      if ms:
                          # A[strlen(A) - n]: inside the string that A already holds, provided strlen(A) >= n on this path
                          sl = [c for c in p.events[:i] if c[0] == 'call' and c[3] == ms.group(1)]
                          nn = int(ms.group(2))
                          ge = any(x[0] == 'cond' and x[2] and ((re.fullmatch(re.escape('(' + ms.group(1)) + r' > (\d+)\)', x[1]) and int(re.fullmatch(re.escape('(' + ms.group(1)) + r' > (\d+)\)', x[1]).group(1)) >= nn - 1)
                                                                or (re.fullmatch(re.escape('(' + ms.group(1)) + r' >= (\d+)\)', x[1]) and int(re.fullmatch(re.escape('(' + ms.group(1)) + r' >= (\d+)\)', x[1]).group(1)) >= nn)) for x in p.events[:i])
                          within = bool(sl) and sl[0][2] == (A,) and ge and pv.array_terminated(A, p, p.events.index(sl[0]))
                      if within: pass
                      elif cm is not None and cm < size: pass
                      elif not (idx.isdigit() and int(idx) < size) and (not conds or any(shared_admits(conds, x) for x in (size, size + 1, size * 2, 10 ** 6))):
                          badbuf.setdefault(f'{e[1]} := {e[2]}: index not bounded below {size}', where(e[3]))
                  # offset dereferences in conditions / values
                  for s in eavobj.event_values(e):
                      for m in re.finditer(r"((?:[\w@#']+(?:->|\.))*\w+|\([^()]*(?:\([^()]*\)[^()]*)*\))\[(-?\d+)\]", s):
                          base, k = m.group(1), int(m.group(2))
                          if base in pv.arrays or base in ('reserved', 'example', 'errors', 'tld_list') or '__ctype' in base or '__ctype' in s[:m.start()][-30:]: continue
                          if base in pv.global_arrays and 0 <= k < pv.global_arrays[base]: n += 1; continue      # constant index into a file-scope array of known size
                          n += 1
                          if k >= 0:
                              ok = pv.safe(base if k == 0 else f'({base} + {k})', p, i)
                          else:
                              # end[-1]: the range must be known non-empty
                              ok = base == 'end' and k == -1 and (p.passed('(start == end)', False, before=i) or any(c[1] in SEARCH and c[2][0] == 'start' and p.passed(c[3], True, before=i) for c in p.calls()))
                          if not ok: bad.setdefault(f'{m.group(0)}: offset access not known to stay inside the string', where(e[-1]) if isinstance(e[-1], dict) else '?')
          except ProvUnknown as u:
            raise AnalysisBroken(f'{site}: pointer provenance cannot be judged: {u}')
        for why, at in bad.items(): r62p.instance(site, ok=False, wclass='provenance:' + why.split(':')[0][:40], what=f'{why} ({at})')
        for _ in range(max(n - len(bad), 0)): r62p.instance(site, ok=True)
        for why, at in badbuf.items(): r63.instance(site, ok=False, wclass='buffer:' + why.split(' ')[0][:30], what=f'{why} ({at})')
        for _ in range(max(nbuf - len(badbuf), 0)): r63.instance(site, ok=True)
        if fn.endswith('_email'):
            why = []
            for p in paths:
                if p.events and p.events[-1][0] == 'abort': continue
                mal = p.calls('malloc')
                if len(mal) != 1 or p.ret()[1] != mal[0][3]: why.append(f'path allocates {len(mal)} record(s) and returns {p.ret()[1]}')
                if p.calls('free'): why.append('frees on a path')
            r67.instance(site, ok=not why, wclass='record-lifetime', what='; '.join(sorted(set(why))))
    # ---- R6.6 abort sites
    r66 = ck.rule('R6.6', 'abort / assert / exit sites in library units are exactly: allocation-failure asserts (the only branch before them is `malloc(..) == NULL`) and the default arm of the class switch (unreachable: every class has an arm, C08 R8.1)', 9)
    for key, tu in sorted(tus.items()):
        for fname, f in tu.own_functions().items():
            for name, call in astutil.calls_in(f):
                if name not in cfgpaths.NORETURN: continue
                ok = False
                if name == '__assert_fail':
                    # an allocation-failure assert: the only branch decision on every aborting path is `malloc result == NULL`
                    # (in the e-mail functions themselves or in an allocator helper they call)
                    eng, paths = cfgpaths.summarise(tu, fname, inline=False)
                    ab = [p for p in paths if p.events and p.events[-1][0] == 'abort' and any(c[1] == '__assert_fail' for c in p.calls())]
                    ok = bool(ab) and all(len(p.conds()) == 1 and re.fullmatch(r'malloc#\d+', p.conds()[0][0]) and p.conds()[0][1] is False for p in ab)
                if name == 'abort' and fname == 'eav_is_email' and key.endswith('/eav.c'):
                    eng, paths = cfgpaths.summarise(tu, fname)
                    ab = [p for p in paths if p.events and p.events[-1][0] == 'abort']
                    ok = bool(ab) and all(any(e[0] == 'cond' and '<default>' in e[1] for e in p.events) for p in ab)
                r66.instance(f'{key}:{fname}:{name}', ok=ok, wclass='abort-site', what=f'{fname} can reach {name} ({where(call)}) on input-dependent conditions')
    # the default arm of the class switch calls abort(): it is unreachable only if no callback can hand a positive value
    # other than a class to eav_is_email.  Every value the domain pipeline can return / store in rc is classified here.
    def rc_kind(v):
        v = str(v)
        if v in ('0', 'EEAV_NO_ERROR'): return 'zero'
        if re.fullmatch(r'-EEAV_\w+', v): return 'negative'
        if re.fullmatch(r'-\(.+ \? EEAV_\w+ : EEAV_\w+\)', v): return 'negative'          # -(cond ? EEAV_a : EEAV_b)
        if v == 'TLD_TYPE_SPECIAL': return 'class'
        if re.fullmatch(r"is_tld#\d+'*", v): return 'class-or-negative'          # row.type or -EEAV_TLD_INVALID (C07 R7.2)
        if re.fullmatch(r"is_(ascii_domain|\d+_local|utf8_domain)#\d+'*", v): return 'validator'   # 0 / negative by their own returns (C15 T15.2) or classified below
        if re.fullmatch(r"EEAV_\w+|TLD_TYPE_\w+|[1-9]\d*", v): return None                # a positive constant that is not a class
        raise AnalysisBroken(f'the value {v} handed to the class switch comes from something R6.6 has no model for (e.g. a helper function): cannot judge whether abort() is reachable; re-confirm')
    for b in BACKENDS:
        k = f'partial/{b}/is_utf8_domain.c'
        eng, ups = cfgpaths.summarise(tus[k], 'is_utf8_domain')
        bad = sorted({str(p.ret()[1]) for p in ups if rc_kind(p.ret()[1]) is None})
        r66.instance(f'{k}:is_utf8_domain:returns', ok=not bad, wclass='positive-code-escapes', what=f'is_utf8_domain can return {bad}: a positive value that is not a TLD class reaches the class switch of eav_is_email, whose default arm calls abort()')
    for key, fn in [(k, f'is_{m}_email') for m, k in emailfn.ASCII.items()] + [(f'partial/{b}/is_6531_email.c', 'is_6531_email') for b in BACKENDS]:
        eng, eps = cfgpaths.summarise(tus[key], fn)
        bad = set()
        for p in eps:
            if p.events and p.events[-1][0] == 'abort': continue
            rc = next((e[2] for e in reversed(p.events) if e[0] == 'set' and e[1].endswith('->rc')), None)
            if rc_kind(rc) is None: bad.add(str(rc))
        r66.instance(f'{key}:{fn}:rc', ok=not bad, wclass='positive-code-escapes', what=f'{fn} can leave rc = {sorted(bad)}: not 0, a negative code or a TLD class; eav_is_email aborts on it')
    # ---- R6.8 loops
    r68 = ck.rule('R6.8', 'every loop in non-scanner library code makes progress towards its bound, and an O(n) libc call inside a loop works on the advancing cursor (amortised) or is guarded to run once', 6)
    KNOWN_LOOPS = {
        ('src/is_tld.c', 'is_tld'): ['row pointer ++ to the sentinel'],
        ('src/is_special_domain.c', 'is_special_domain'): ['cp = ch + 1 after strchr', 'count--', 'i++ < ARRAY_SIZE'],
    }
    for key, tu in sorted(tus.items()):
        for fname, f in tu.own_functions().items():
            loops = [n for n in astutil.walk(f) if n.get('kind') in ('ForStmt', 'WhileStmt', 'DoStmt')]
            loops = [l for l in loops if not (l['kind'] == 'DoStmt' and strip_zero(l))]
            for l in loops:
                site = f'{key}:{fname}:loop@{astutil.line_of(l)}'
                init_calls = {id(c) for nm, c in astutil.calls_in(l['inner'][0])} if l['kind'] == 'ForStmt' and l['inner'][0] and l['inner'][0].get('kind') else set()
                inner = [(nm, c) for nm, c in astutil.calls_in(l) if nm in LIN and id(c) not in init_calls]      # the for-init runs once
                scanner = fname in ('is_822_local', 'is_5321_local', 'is_5322_local', 'is_6531_local', 'is_ascii_domain', 'is_ipv4', 'is_ipv6')
                ok = True; why = ''
                if scanner:
                    # progress: R6.2s; libc calls inside: cursor-relative strspn, or the once-only first-octet test
                    for nm, c in inner:
                        eng = cfgpaths.Engine(tu, fname); a0 = eng.render(c['inner'][1], cfgpaths.Path())
                        # the searched pointer is the loop's own advancing cursor (whatever it is called): it is stepped in the loop
                        stepped = set()
                        for w in astutil.walk(l):
                            if w.get('kind') == 'UnaryOperator' and w.get('opcode') in ('++',) and astutil.strip(w['inner'][0]).get('kind') == 'DeclRefExpr': stepped.add(astutil.strip(w['inner'][0])['referencedDecl']['name'])
                            if w.get('kind') == 'CompoundAssignOperator' and w.get('opcode') == '+=' and astutil.strip(w['inner'][0]).get('kind') == 'DeclRefExpr': stepped.add(astutil.strip(w['inner'][0])['referencedDecl']['name'])
                        if re.fullmatch(r'\w+', a0) and a0 in stepped and a0 not in tu.params(fname): continue
                        if fname == 'is_ipv4' and nm == 'strspn' and a0 == 'start' and guarded_once(tu, fname, c): continue
                        ok = False; why = f'{nm}({a0}, ...) inside the scanning loop rescans from a fixed position on every iteration'
                else:
                    if True:
                        txt = ' '.join(n.get('opcode', '') + n.get('kind', '') for n in astutil.walk(l))
                        if not any(k in txt for k in ('++', '--', '=BinaryOperator', 'CompoundAssign')): ok = False; why = 'loop without an induction update'
                        for nm, c in inner:
                            eng = cfgpaths.Engine(tu, fname); args = [eng.render(a, cfgpaths.Path()) for a in c['inner'][1:]]
                            if nm in ('strchr', 'memchr') and amortised_search(tu, fname, l, c): continue    # amortised: the searched pointer moves past each result
                            if nm in ('strncasecmp', 'strncmp', 'memcmp') and len(args) == 3 and re.search(r'\.length$|->length$', args[2]): continue   # bounded by a table entry
                            if nm in ('strncasecmp', 'strncmp', 'memcmp', 'strcmp', 'strcasecmp') and const_trip_loop(tu, fname, l): continue              # a constant number of bounded comparisons
                            if nm in ('strncasecmp', 'strncmp', 'strcmp', 'strcasecmp') and any(re.search(r'(->|\.)domain$', a) for a in args[:2]): continue     # one operand is a table entry (a short constant string): the comparison stops at its terminator
                            ok = False; why = f'{nm}({", ".join(args)}) inside a loop is neither on the advancing pointer nor bounded by a table entry'
                r68.instance(site if not ok else f'{key}:{fname}:loops', ok=ok, wclass='loop', what=f'{fname}: {why} ({where(l)})')
    # ---- R6.9 accumulators
    r69 = ck.rule('R6.9', 'an integer that is multiplied or shifted inside a loop (an accumulator of input digits) is bounded by a check on its new value in the same iteration, so it cannot overflow however long the input is', 1)
    nacc = 0
    for key, tu in sorted(tus.items()):
        for fname, f in tu.own_functions().items():
            accs = set()
            for l in [n for n in astutil.walk(f) if n.get('kind') in ('ForStmt', 'WhileStmt', 'DoStmt')]:
                if small_trip_count(tu, fname, f, l): continue          # a counted loop of at most a few rounds (every caller passes a literal count): no overflow by repetition
                for n in astutil.walk(l):
                    if n.get('kind') == 'CompoundAssignOperator' and n.get('opcode') in ('*=', '<<='):
                        accs.add(cfgpaths.Engine(tu, fname).render(n['inner'][0], cfgpaths.Path(), lvalue=True))
                    if n.get('kind') == 'BinaryOperator' and n.get('opcode') == '=':
                        lv = cfgpaths.Engine(tu, fname).render(n['inner'][0], cfgpaths.Path(), lvalue=True)
                        rhs = astutil.strip(n['inner'][1])
                        # x = x * 10 + d, x = d + (x << 4), ...: a product / shift of the variable itself anywhere in the right-hand side
                        if any(m.get('kind') == 'BinaryOperator' and m.get('opcode') in ('*', '<<') and any(y.get('kind') == 'DeclRefExpr' and y['referencedDecl'].get('name') == lv for y in astutil.walk(m)) for m in astutil.walk(rhs)): accs.add(lv)
            if not accs: continue
            eng, paths = cfgpaths.summarise(tu, fname)
            for x in sorted(accs):
                nacc += 1; why = []
                for p in paths:
                    ev = p.events
                    for i, e in enumerate(ev):
                        if not (e[0] == 'set' and e[1] == x and re.search(r'\*|<<', e[2])): continue
                        # follow the value of x to the end of the iteration
                        val = e[2]; bounded = False
                        for e2 in ev[i + 1:]:
                            if e2[0] == 'loop' and e2[1].endswith(':backedge'): break
                            if e2[0] == 'set' and e2[1] == x: val = e2[2]
                            if e2[0] == 'cond':
                                m = re.fullmatch(re.escape('(' + val) + r' (>|>=|<|<=) (\d+)\)', e2[1])
                                if m and ((m.group(1) in ('>', '>=') and not e2[2]) or (m.group(1) in ('<', '<=') and e2[2])): bounded = True
                            if e2[0] == 'return': bounded = bounded or True
                        else:
                            bounded = True          # the path left the function inside this iteration
                        if not bounded: why.append(f'{x} := {e[2]} reaches the next iteration without an upper-bound test ({where(e[3])})')
                r69.instance(f'{key}:{fname}:{x}', ok=not why, wclass='unbounded-accumulator', what=f'{fname}: ' + '; '.join(sorted(set(why))[:2]) + ': signed overflow (undefined behaviour) on a long enough digit run')
    if nacc == 0: raise AnalysisBroken('R6.9 found no accumulator at all (is_ipv4 multiplies byte_val by 10): the rule may be dead')
    # ---- R6.10 subscripts of file-scope tables
    r610 = ck.rule('R6.10', 'every subscript of a file-scope table is in range: a constant below the size, the induction variable of an enclosing `for (i = 0; i < K; i++)` with K <= size and no other write to i, or errors[eav->errcode] (errcode only ever holds enumerators below EEAV_MAX: C15 T15.1 / P15.1); any other index expression stops the check; a table handed to a helper with an element count is walked within its size', 3)
    sizes = {}
    for key, tu in tus.items():
        for name, d in tu.globals.items():
            m = re.fullmatch(r'.+\[(\d+)\]', d.get('type', {}).get('qualType', ''))
            if m: sizes[name] = max(sizes.get(name, 0), int(m.group(1)))
    for key, tu in sorted(tus.items()):
        for fname, f in tu.own_functions().items():
            def visit(n, stack):
                if n.get('kind') == 'ArraySubscriptExpr':
                    base = astutil.strip(n['inner'][0]); idx = astutil.strip(n['inner'][1])
                    if base.get('kind') == 'DeclRefExpr' and base['referencedDecl'].get('kind') == 'VarDecl' and base['referencedDecl']['name'] in tu.globals and '[' in tu.globals[base['referencedDecl']['name']].get('type', {}).get('qualType', ''):
                        G = base['referencedDecl']['name']; size = sizes.get(G)
                        site = f'{key}:{fname}:{G}[]@{astutil.line_of(n)}'
                        eng = cfgpaths.Engine(tu, fname)
                        it = eng.render(idx, cfgpaths.Path())
                        ok = None; why = ''
                        if G == 'errors' and idx.get('kind') == 'DeclRefExpr' and idx['referencedDecl'].get('kind') == 'VarDecl':
                            # a local that only ever holds eav->errcode
                            vn = idx['referencedDecl']['name']
                            srcs = set()
                            for d in astutil.walk(f):
                                if d.get('kind') == 'VarDecl' and d.get('name') == vn:
                                    ini = [x for x in d.get('inner', []) if 'Comment' not in x.get('kind', '')]
                                    srcs.add(eng.render(ini[0], cfgpaths.Path()) if ini else '<uninitialised>')
                                if d.get('kind') == 'BinaryOperator' and d.get('opcode') == '=' and astutil.strip(d['inner'][0]).get('kind') == 'DeclRefExpr' and astutil.strip(d['inner'][0])['referencedDecl'].get('name') == vn:
                                    srcs.add(eng.render(d['inner'][1], cfgpaths.Path()))
                            if srcs == {'eav->errcode'}: it = 'eav->errcode'
                        if re.fullmatch(r'\d+', it):
                            ok = size is not None and int(it) < size; why = f'{G}[{it}] with {size} elements'
                        elif idx.get('kind') == 'DeclRefExpr' and it != 'eav->errcode':
                            v = idx['referencedDecl']['name']
                            loops = [l for l in stack if l.get('kind') == 'ForStmt']
                            for l in reversed(loops):
                                cond = l['inner'][2] if len(l['inner']) > 2 else None
                                if not cond or not cond.get('kind'): continue
                                cs = eng.render(cond, cfgpaths.Path())
                                ms = re.fullmatch(r'\(?' + re.escape(G) + r'\[' + re.escape(v) + r'\](?:\.|->)\w+(?: != (?:NULL|0))?\)?', cs)
                                if ms and sentinel_terminated(tus, G):
                                    # sentinel scan: the loop stops at the all-zero last row, which the table is checked to have
                                    writes = [w for w in astutil.walk(l['inner'][-1]) if (w.get('kind') in ('BinaryOperator', 'CompoundAssignOperator') and (w.get('opcode') == '=' or w.get('kind') == 'CompoundAssignOperator') and astutil.strip(w['inner'][0]).get('kind') == 'DeclRefExpr' and astutil.strip(w['inner'][0])['referencedDecl']['name'] == v) or (w.get('kind') == 'UnaryOperator' and w.get('opcode') in ('++', '--') and astutil.strip(w['inner'][0]).get('kind') == 'DeclRefExpr' and astutil.strip(w['inner'][0])['referencedDecl']['name'] == v)]
                                    inc = l['inner'][3] if len(l['inner']) > 3 else None
                                    init0 = any(d.get('kind') == 'VarDecl' and d.get('name') == v and any(x.get('kind') == 'IntegerLiteral' and int(x['value']) == 0 for x in astutil.walk(d)) for d in astutil.walk(l['inner'][0])) if l['inner'][0] else False
                                    if not init0 and l['inner'][0] and l['inner'][0].get('kind') == 'BinaryOperator':
                                        init0 = eng.render(l['inner'][0]['inner'][1], cfgpaths.Path()) == '0' and eng.render(l['inner'][0]['inner'][0], cfgpaths.Path(), lvalue=True) == v
                                    ok = (not writes) and bool(inc) and inc.get('kind') == 'UnaryOperator' and inc.get('opcode') == '++' and init0
                                    why = f'{G}[{v}] in a sentinel scan' + ('' if ok else ' whose index is not a plain 0, 1, 2, ... walk')
                                    break
                                m = re.fullmatch(r'\(' + re.escape(v) + r' (<|<=) (\d+)\)', cs)
                                if not m: continue
                                K = int(m.group(2)) + (1 if m.group(1) == '<=' else 0)
                                # i starts at a non-negative constant and is only incremented by the loop's own step
                                writes = [w for w in astutil.walk(l['inner'][-1]) if (w.get('kind') in ('BinaryOperator', 'CompoundAssignOperator') and (w.get('opcode') == '=' or w.get('kind') == 'CompoundAssignOperator') and astutil.strip(w['inner'][0]).get('kind') == 'DeclRefExpr' and astutil.strip(w['inner'][0])['referencedDecl']['name'] == v) or (w.get('kind') == 'UnaryOperator' and w.get('opcode') in ('++', '--') and astutil.strip(w['inner'][0]).get('kind') == 'DeclRefExpr' and astutil.strip(w['inner'][0])['referencedDecl']['name'] == v)]
                                inc = l['inner'][3] if len(l['inner']) > 3 else None
                                inc_ok = inc and inc.get('kind') == 'UnaryOperator' and inc.get('opcode') == '++'
                                unsigned_or_zero = any(d.get('kind') == 'VarDecl' and d.get('name') == v and ('unsigned' in d['type']['qualType'] or 'size_t' in d['type']['qualType']) for d in astutil.walk(l['inner'][0])) if l['inner'][0] else False
                                init0 = any(d.get('kind') == 'VarDecl' and d.get('name') == v and any(x.get('kind') == 'IntegerLiteral' and int(x['value']) >= 0 for x in astutil.walk(d)) for d in astutil.walk(l['inner'][0])) if l['inner'][0] else False
                                if size is not None and K <= size and not writes and inc_ok and (init0 or unsigned_or_zero): ok = True
                                else: ok = False; why = f'{G}[{v}] inside for ({cs}) with {size} elements' + (', index also written in the body' if writes else '')
                                break
                        elif G == 'errors' and it == 'eav->errcode':
                            ok = True
                        if ok is None:
                            raise AnalysisBroken(f'{key}:{fname}: {G}[{it}] at {where(n)}: an index expression the table-subscript rule (R6.10) has no bound for')
                        r610.instance(site, ok=ok, wclass='table-index', what=f'{fname}: {why} ({where(n)})')
                for c in n.get('inner', []) or []:
                    if isinstance(c, dict): visit(c, stack + [n])
            visit(f, [])
    # R6.10 (continued): a file-scope table handed to a helper of the same unit together with its element count
    #   static int lookup (const T *list, size_t count, ...) { for (i = 0; i < count; i++) ... list[i] ... }
    #   lookup (example, ARRAY_SIZE(example), ...)            the count must not exceed the table that is passed
    for key, tu in sorted(tus.items()):
        helpers = {}
        for hname, hf in tu.own_functions().items():
            params = [c['name'] for c in hf.get('inner', []) if c.get('kind') == 'ParmVarDecl']
            eng = cfgpaths.Engine(tu, hname)
            pairs = set()
            for l in [n for n in astutil.walk(hf) if n.get('kind') == 'ForStmt']:
                cond = l['inner'][2] if len(l['inner']) > 2 else None
                if not cond or not cond.get('kind'): continue
                m = re.fullmatch(r'\((\w+) (<|<=) (\w+)\)', eng.render(cond, cfgpaths.Path()))
                if not m or m.group(3) not in params: continue
                for sub in astutil.find(l, 'ArraySubscriptExpr'):
                    b = astutil.strip(sub['inner'][0]); ix = astutil.strip(sub['inner'][1])
                    if b.get('kind') == 'DeclRefExpr' and b['referencedDecl']['name'] in params and ix.get('kind') == 'DeclRefExpr' and ix['referencedDecl']['name'] == m.group(1):
                        pairs.add((params.index(b['referencedDecl']['name']), params.index(m.group(3)), m.group(2)))
            if pairs: helpers[hname] = pairs
        if not helpers: continue
        for fname, f in tu.own_functions().items():
            eng = cfgpaths.Engine(tu, fname)
            for nm, c in astutil.calls_in(f):
                if nm not in helpers: continue
                args = c['inner'][1:]
                for pi, ni, op in helpers[nm]:
                    if pi >= len(args) or ni >= len(args): continue
                    a = astutil.strip(args[pi])
                    if not (a.get('kind') == 'DeclRefExpr' and a['referencedDecl']['name'] in sizes): continue
                    G = a['referencedDecl']['name']; kt = eng.render(args[ni], cfgpaths.Path())
                    if not re.fullmatch(r'\d+', kt):
                        raise AnalysisBroken(f'{key}:{fname}: {nm}({G}, {kt}, ...) at {where(c)}: the element count handed over with the table is not a constant the table-subscript rule (R6.10) can compare with its size')
                    K = int(kt) + (1 if op == '<=' else 0)
                    r610.instance(f'{key}:{fname}:{nm}({G})@{astutil.line_of(c)}', ok=K <= sizes[G], wclass='table-count', what=f'{fname}: {nm}() walks {K} element(s) of {G}[], which has {sizes[G]} ({where(c)})')
    # ---- R6.5 = C14 R14.2 (stores) and R14.1 (no globals), run here as part of the bundle
    from rules import c14
    c14.run(ck)
    ck.undecided('signed overflow of counters for inputs above 2^31 bytes; ptrdiff to int narrowing beyond INT_MAX; anything inside libidn2 / libc; "64 KiB inputs run in linear time" is argued from one-pass progress, not measured')
    ck.assume('NUL-terminated input with length == strlen (statement); allocation failure aside')


def small_trip_count(tu, fname, f, loop, limit=8):
    """while (n > 0) { ...; n -= 1; } / for (; n--; ) where n is a parameter that every call site in the unit passes as an
    integer literal <= limit, and nothing else writes n"""
    eng = cfgpaths.Engine(tu, fname)
    cond = loop['inner'][2] if loop['kind'] == 'ForStmt' else (loop['inner'][-2] if loop['kind'] == 'WhileStmt' else loop['inner'][1])
    if not cond or not cond.get('kind'): return False
    cs = eng.render(cond, cfgpaths.Path())
    m = re.fullmatch(r'\((\w+) (?:>|!=) 0\)|\((\w+) >= 1\)|(\w+)|\((\w+)-- (?:>|!=) 0\)', cs)
    if not m: return False
    v = next(g for g in m.groups() if g)
    params = [c['name'] for c in f.get('inner', []) if c.get('kind') == 'ParmVarDecl']
    if v not in params: return False
    # writes to v inside the function: only decrements by one
    for w in astutil.walk(f):
        tgt = None
        if w.get('kind') in ('BinaryOperator', 'CompoundAssignOperator') and (w.get('opcode') == '=' or w.get('kind') == 'CompoundAssignOperator'): tgt = astutil.strip(w['inner'][0])
        if w.get('kind') == 'UnaryOperator' and w.get('opcode') in ('++', '--'): tgt = astutil.strip(w['inner'][0])
        if tgt is not None and tgt.get('kind') == 'DeclRefExpr' and tgt['referencedDecl']['name'] == v:
            okw = (w.get('kind') == 'UnaryOperator' and w.get('opcode') == '--') or (w.get('kind') == 'CompoundAssignOperator' and w.get('opcode') == '-=' and eng.render(w['inner'][1], cfgpaths.Path()) == '1')
            if not okw: return False
    idx = params.index(v); sites = 0
    for gname, g in tu.functions.items():
        for nm, c in astutil.calls_in(g):
            if nm != fname: continue
            sites += 1
            a = c['inner'][1:][idx] if idx < len(c['inner'][1:]) else None
            t = eng.render(a, cfgpaths.Path()) if a is not None else ''
            if not re.fullmatch(r'\d+', t) or int(t) > limit: return False
    return sites > 0


def amortised_search(tu, fname, loop, call):
    """strchr(P..., c) inside a loop whose searched pointer is advanced from the search's own result (ch = strchr(cp, c);
    cp = ch + 1;  or  for (dot = strchr(s, c); dot; dot = strchr(dot + 1, c))): every byte is visited once overall"""
    eng = cfgpaths.Engine(tu, fname)
    def names(n): return {m['referencedDecl']['name'] for m in astutil.walk(n) if m.get('kind') == 'DeclRefExpr' and m['referencedDecl'].get('kind') in ('VarDecl', 'ParmVarDecl')}
    argvars = names(call['inner'][1])
    assigns = []           # (target, vars of the right-hand side, rhs contains this call)
    for m in astutil.walk(loop):
        if m.get('kind') == 'BinaryOperator' and m.get('opcode') == '=' and astutil.strip(m['inner'][0]).get('kind') == 'DeclRefExpr':
            assigns.append((astutil.strip(m['inner'][0])['referencedDecl']['name'], names(m['inner'][1]), any(x is call for x in astutil.walk(m['inner'][1]))))
        if m.get('kind') == 'VarDecl' and m.get('inner'):
            assigns.append((m['name'], names(m), any(x is call for x in astutil.walk(m))))
    results = {t for t, vs, has in assigns if has}
    if not results: return False
    if argvars & results: return True                                   # dot = strchr(dot + 1, c)
    for t, vs, has in assigns:
        if t in argvars and vs & results: return True                   # cp = ch + 1 with ch = strchr(cp, c)
    return False


def sentinel_terminated(tus, G):
    """the table G is defined with an initialiser whose last row is all NULL / 0"""
    for key, tu in tus.items():
        d = tu.globals.get(G)
        if d is None or not any(c.get('kind') == 'InitListExpr' for c in d.get('inner', [])): continue
        try: var, rows = tables.global_table(tu, G, keep_names=True)
        except Exception: return False
        return bool(rows) and all(x in (None, 0, '0') for x in rows[-1])
    return False


def const_trip_loop(tu, fname, l):
    """is the loop bounded by a compile-time constant (i < ARRAY_SIZE(table) / i < N)?"""
    if l.get('kind') != 'ForStmt': return False
    cond = l['inner'][2]
    if not cond or not cond.get('kind'): return False
    s = cfgpaths.Engine(tu, fname).render(cond, cfgpaths.Path())
    return re.fullmatch(r'\(\w+ (<|<=) \d+\)', s) is not None


def strip_zero(l):
    c = l['inner'][1]
    while c.get('kind') in ('ImplicitCastExpr', 'ParenExpr'): c = c['inner'][0]
    return c.get('kind') == 'IntegerLiteral' and int(c['value']) == 0


def guarded_once(tu, fname, call):
    """is the call inside an `if` whose condition contains `<counter> == 1` (executes during the first octet only)?"""
    def find_parent(n, target, stack):
        if n is target: return list(stack)
        for c in n.get('inner', []) or []:
            r = find_parent(c, target, stack + [n])
            if r is not None: return r
        return None
    st = find_parent(tu.fn(fname), call, []) or []
    for n in st:
        if n.get('kind') == 'IfStmt':
            txt = cfgpaths.Engine(tu, fname).render(n['inner'][0], cfgpaths.Path()) if False else str(n['inner'][0])
            if "'opcode': '=='" in txt and 'byte_count' in txt: return True
    return False
