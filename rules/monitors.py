"""Per-input truth of error codes (C15, third layer): the scanner extracted from the source runs jointly with a
monitor automaton that records simple facts about the whole input; whenever the scanner returns code E, the fact
that E names must hold - on every string of every length (early returns are checked against every extension)."""
import scanex, forkmap
from scanex import END, NA, BAD
from spec import localpart as LP, domain as DS
from rules import lp
from report import AnalysisBroken
from astutil import where

SPECIALS_SP = LP.SPECIALS | {0x20}


def lp_monitor(rfc20=False):
    """state: (nonempty, first_is_dot, prev_is_dot, has_hi, has_ctl, has_dotdot, has_special, has_dquote, has_ws, has_cr, has_illformed)"""
    init = (False,) * 11
    def step(st, b):
        ne, fd, pd, hi, ctl, dd, sp, dq, ws, cr, bad = st
        isdot = (b == 0x2e)
        return (True, fd or (not ne and isdot), isdot, hi or scanex.is_na(b) or (b != BAD and not scanex.is_na(b) and b >= 0x80), ctl or (b in LP.CTL_SET),
                dd or (pd and isdot), sp or (b in SPECIALS_SP) or (rfc20 and b in LP.RFC20), dq or b == 0x22, ws or (b in LP.WS), cr or b == 0x0d, bad or b == BAD)
    return init, step


LP_FACTS = {
    'EEAV_LPART_EMPTY': lambda s: not s[0],
    'EEAV_LPART_NOT_ASCII': lambda s: s[3],
    'EEAV_LPART_CTRL_CHAR': lambda s: s[4],
    'EEAV_LPART_TOO_MANY_DOTS': lambda s: s[5],
    'EEAV_LPART_MISPLACED_DOT': lambda s: s[1] or s[2],
    'EEAV_LPART_SPECIAL': lambda s: s[6],
    'EEAV_LPART_MISPLACED_QUOTE': lambda s: s[7],
    'EEAV_LPART_UNQUOTED': lambda s: s[7],
    'EEAV_LPART_UNQUOTED_FWS': lambda s: s[8],
    'EEAV_LPART_INVALID_FOLDING': lambda s: s[9],
    'EEAV_LPART_INVALID_UTF8': lambda s: s[10],
}
LP_MEANING = {
    'EEAV_LPART_EMPTY': 'the local part is empty', 'EEAV_LPART_NOT_ASCII': 'a non-ASCII byte/character occurs', 'EEAV_LPART_CTRL_CHAR': 'a control character occurs',
    'EEAV_LPART_TOO_MANY_DOTS': '".." occurs', 'EEAV_LPART_MISPLACED_DOT': 'the first or last byte is "."', 'EEAV_LPART_SPECIAL': 'a special character or space occurs',
    'EEAV_LPART_MISPLACED_QUOTE': 'a DQUOTE occurs', 'EEAV_LPART_UNQUOTED': 'a DQUOTE occurs', 'EEAV_LPART_UNQUOTED_FWS': 'a whitespace byte occurs',
    'EEAV_LPART_INVALID_FOLDING': 'a CR occurs', 'EEAV_LPART_INVALID_UTF8': 'an ill-formed UTF-8 sequence occurs',
}


def dom_monitor(underscore=False):
    """state: (nonempty, run length of non-dot bytes (cap 64), max run > 63, empty label seen, prev is dot, hyphen at label edge, prev is hyphen, bad char, only digits and dots)"""
    init = (False, 0, False, False, False, False, False, False, True)
    def step(st, b):
        ne, run, long_, empty, pd, hy, ph, badc, num = st
        isdot = b == 0x2e; ishy = b == 0x2d
        ldh = b in DS.LETTERS or b in DS.DIGITS or ishy or (underscore and b == 0x5f)
        run2 = 0 if isdot else min(run + 1, 64)
        return (True, run2, long_ or run2 > 63, empty or (isdot and (pd or not ne)), isdot,
                hy or (ishy and (pd or not ne)) or (isdot and ph), ishy, badc or not (ldh or isdot), num and (b in DS.DIGITS or isdot))
    def final(st):
        # facts that depend on the end of the string
        ne, run, long_, empty, pd, hy, ph, badc, num = st
        return (ne, long_, empty or pd, hy or ph, badc, num)
    return init, step, final


DOM_FACTS = {
    'EEAV_DOMAIN_EMPTY': lambda f: not f[0],
    'EEAV_DOMAIN_LABEL_TOO_LONG': lambda f: f[1],
    'EEAV_DOMAIN_MISPLACED_DELIMITER': lambda f: f[2],
    'EEAV_DOMAIN_MISPLACED_HYPHEN': lambda f: f[3],
    'EEAV_DOMAIN_INVALID_CHAR': lambda f: f[4],
    'EEAV_DOMAIN_NUMERIC': lambda f: f[5],
}
DOM_MEANING = {'EEAV_DOMAIN_EMPTY': 'the domain is empty', 'EEAV_DOMAIN_LABEL_TOO_LONG': 'a label is longer than 63', 'EEAV_DOMAIN_MISPLACED_DELIMITER': 'a label is empty',
               'EEAV_DOMAIN_MISPLACED_HYPHEN': 'a label starts or ends with "-"', 'EEAV_DOMAIN_INVALID_CHAR': 'a byte outside letters, digits, "-", "." occurs',
               'EEAV_DOMAIN_NUMERIC': 'only digits and dots occur'}


def monitor_task(tu, make_machine, symbols, term, mon, facts, final=None, skip_empty=False):
    def task():
        found = {}; produced = set()
        m = make_machine(term)
        init, step = mon[0], mon[1]
        d = scanex.DFAMachine('monitor', init, step, lambda s: True, verdict=(lambda s: ('facts', final(s) if final else s)))
        def leaf(results, witness):
            (rc, node), (ver, _) = results
            if rc == 0 or not isinstance(rc, int): return
            name = lp.errname(tu, rc); produced.add(name)
            f = facts.get(name)
            if f is None:
                cls = 'unmonitored-code:' + name
            elif f(ver[1]): return
            else: cls = 'untruthful:' + name
            w = [s for s in witness if s != END]
            if skip_empty and not w: return          # the empty range never reaches the scan (the length pre-checks reject it)
            if cls not in found or len(w) < len(found[cls][0]): found[cls] = (w, where(node) if node else '?')
        ex = scanex.Explorer([m, d], symbols, term); ex.run(leaf)
        return ex.configs, ex.transitions, found, sorted(produced)
    return task


def run(ck, all_tus):
    from rules.c03 import machine_6531
    from rules.c04 import scan_machine, domain_alphabet
    r = ck.rule('M15.1', 'whenever a local-part scanner returns code E, the condition E names holds of the input (monitor in the product, all lengths)', 4)
    jobs = []; meta = []
    for mode in ('822', '5321', '5322', '6531'):
        key = f'src/is_{mode}_local.c'; tu = all_tus[key]; fn = f'is_{mode}_local'
        utf8 = mode == '6531'
        symbols, _, _ = lp.alphabet([tu.fn(fn)], utf8=utf8)
        mk = (lambda tu: (lambda term: machine_6531(tu, term)))(tu) if utf8 else (lambda tu, fn: (lambda term: scanex.ScannerMachine(tu, fn, term)))(tu, fn)
        jobs.append(monitor_task(tu, mk, symbols, 0x40, lp_monitor(), LP_FACTS)); meta.append((key, fn, tu, LP_MEANING, r))
    r2 = ck.rule('M15.2', 'whenever the domain scan returns code E, the condition E names holds of the scanned range (monitor in the product, all lengths)', 2)
    key = 'src/is_ascii_domain.c'; tu = all_tus[key]
    reps, _, _ = domain_alphabet(tu)
    mon = dom_monitor()
    for term in (0x00, 0x2e):
        jobs.append(monitor_task(tu, (lambda tu: (lambda t: scan_machine(tu, t)))(tu), reps, term, mon, DOM_FACTS, final=mon[2], skip_empty=True)); meta.append((key, 'is_ascii_domain', tu, DOM_MEANING, r2))
    if ck.tier == 'thorough':
        # the scanners as compiled under the build options: their extra branches report codes too
        import unitdb
        r3 = ck.rule('M15.1[options]', 'thorough tier: the same monitors for is_6531_local built with RFC6531_FOLLOW_RFC5322 / RFC6531_FOLLOW_RFC20 (and both) and for is_ascii_domain built with LABELS_ALLOW_UNDERSCORE', 5)
        for opts, vn in (({'RFC6531_FOLLOW_RFC20': 'ON'}, 'rfc20'), ({'RFC6531_FOLLOW_RFC5322': 'ON'}, 'rfc5322'), ({'RFC6531_FOLLOW_RFC20': 'ON', 'RFC6531_FOLLOW_RFC5322': 'ON'}, 'rfc20+rfc5322')):
            vus = [u for u in unitdb.units(opts, vn) if u.rel == 'src/is_6531_local.c']
            t6 = list(unitdb.load_asts(vus).values())[0]
            symbols, _, _ = lp.alphabet([t6.fn('is_6531_local')], utf8=True)
            jobs.append(monitor_task(t6, (lambda t6: (lambda term: machine_6531(t6, term)))(t6), symbols, 0x40, lp_monitor(rfc20='RFC6531_FOLLOW_RFC20' in opts), LP_FACTS))
            meta.append((f'src/is_6531_local.c[{vn}]', 'is_6531_local', t6, LP_MEANING, r3))
        vus = [u for u in unitdb.units({'LABELS_ALLOW_UNDERSCORE': 'ON'}, 'underscore') if u.rel == 'src/is_ascii_domain.c']
        td = list(unitdb.load_asts(vus).values())[0]
        rp, _, _ = domain_alphabet(td); monu = dom_monitor(underscore=True)
        for term in (0x00, 0x2e):
            jobs.append(monitor_task(td, (lambda td: (lambda t: scan_machine(td, t)))(td), rp, term, monu, DOM_FACTS, final=monu[2], skip_empty=True)); meta.append(('src/is_ascii_domain.c[underscore]', 'is_ascii_domain', td, DOM_MEANING, r3))
    res = forkmap.forkmap(jobs)
    produced_all = set()
    for (key, fn, tu, meaning, rule), (cfg, tr, found, produced) in zip(meta, res):
        ck.mc(cfg, tr); produced_all |= set(produced)
        site = f'{key}:{fn}'
        if not found: rule.instance(site, ok=True, detail={'codes_produced': produced, 'configurations': cfg})
        for cls, (w, at) in sorted(found.items()):
            code = cls.split(':', 1)[1]
            if cls.startswith('unmonitored'):
                rule.instance(site, ok=False, wclass=cls, witness=scanex.show(w), what=f'{fn} returns {code} (at {at}) for {scanex.show(w)!r}; no truth condition is known for this code here')
            else:
                rule.instance(site, ok=False, wclass=cls, witness=scanex.show(w), what=f'{fn} reports {code} (at {at}) for {scanex.show(w)!r}, but it is not true that {meaning.get(code, "?")}')
    ck.sample({'codes_produced_by_scanners': sorted(produced_all)})
