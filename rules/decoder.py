"""O3.1 - utf8_decode_next accepts exactly the well-formed UTF-8 sequences of RFC 3629 (interval abstract
interpretation, lib/decoder_ai.py) and keeps the bookkeeping that is_6531_local relies on."""
import re
import decoder_ai as D
import cfgpaths
from astutil import where
from report import AnalysisBroken


def fmt(box):
    return ' '.join(f'{lo:02X}' if lo == hi else f'{lo:02X}-{hi:02X}' for lo, hi in box)


def run(ck, tu, site='src/utf8_decode.c:utf8_decode_next', ids=('O3.1a', 'O3.1b', 'O3.1c'), fld='u->', end_keeps_byte=False):
    unit = site.split(':')[0]
    ck.analysed(functions=[site, f'{unit}:get', f'{unit}:cont', f'{unit}:utf8_decode_init', f'{unit}:utf8_decode_at_byte'])
    cells, nrun = D.analyse(tu)
    d1 = ck.rule(ids[0], 'every byte box the decoder accepts is inside RFC 3629 table of well-formed sequences (no overlong, surrogate, > U+10FFFF, stray/missing continuation)', 10)
    d2 = ck.rule(ids[1], 'every well-formed sequence is accepted, whatever follows it, consuming exactly its own bytes', 9)
    d3 = ck.rule(ids[2], 'returned value is the code point (box corners), < 0x80 exactly for single bytes; END only at the end; one ERROR value for everything else; the_byte = index of the first byte', 10)
    accepted = {}          # (avail, n) -> [box]
    end_vals = set(); err_vals = set()
    for avail, box, lo, hi, gets, byte_ok, node in cells:
        b = [box[j] for j in range(min(avail, 4))]
        if lo is None:
            d1.instance(f'{site}:read[{gets}]', ok=False, wclass='out-of-bounds-read', what=f'decoder reads the_input[{gets}] with only {avail} byte(s) left ({where(node)}), bytes {fmt(b)}')
            continue
        if lo >= 0:
            n = gets
            wf = [w for w in D.WELL_FORMED if len(w) == n]
            rest = D.subtract_all([b[:n]], wf) if n <= len(b) else [b]
            ok = n >= 1 and n <= avail and not rest
            d1.instance(f'{site}:accept[{fmt(b[:n])}|avail={avail}]' if not ok else f'{site}:accept', ok=ok, wclass='accepts-ill-formed',
                        witness=fmt([(x[0], x[0]) for x in rest[0]]) if rest else None,
                        what=f'decoder accepts the ill-formed sequence(s) {fmt(rest[0]) if rest else fmt(b)} ({avail} byte(s) available, {gets} consumed; return at {where(node)})')
            accepted.setdefault((avail, n), []).append(b[:n])
            # value
            if n <= len(b) and not rest:
                tl = D.decode([x[0] for x in b[:n]]); th = D.decode([x[1] for x in b[:n]])
                okv = (lo, hi) == (tl, th) and ((n == 1) == (hi < 0x80))
                d3.instance(f'{site}:value', ok=okv, wclass='wrong-value', what=f'for bytes {fmt(b[:n])} the decoder returns [{lo},{hi}], code points are [{tl},{th}]')
            d3.instance(f'{site}:the_byte', ok=byte_ok, wclass='the_byte', what=f'the_byte is not set to the index of the character\'s first byte (return at {where(node)})')
        else:
            if avail == 0:
                end_vals.add(lo)
                if end_keeps_byte: d3.instance(f'{site}:the_byte@END', ok=byte_ok, wclass='the_byte', what=f'an END return changes the_byte (return at {where(node)}): utf8_decode_at_byte after END no longer names the last character')
            else:
                err_vals.add((lo, hi))
                d3.instance(f'{site}:the_byte', ok=byte_ok, wclass='the_byte', what=f'the_byte is not set to the index of the character\'s first byte on an error return ({where(node)})') if not byte_ok else None
            if lo != hi: d3.instance(f'{site}:negative', ok=False, wclass='mixed-negative', what=f'decoder returns a range of negative values [{lo},{hi}] for {fmt(b)}')
    for w in D.WELL_FORMED:
        n = len(w)
        for avail in range(n, 5):
            rest = D.subtract_all([list(w)], accepted.get((avail, n), []))
            d2.instance(f'{site}:wf[{fmt(w)}]', ok=not rest, wclass='rejects-well-formed', witness=fmt([(x[0], x[0]) for x in rest[0]]) if rest else None,
                        what=f'well-formed sequence(s) {fmt(rest[0]) if rest else ""} not accepted with {avail} byte(s) available')
    okend = len(end_vals) == 1 and len(err_vals) == 1 and list(err_vals)[0][0] == list(err_vals)[0][1] and list(end_vals)[0] != list(err_vals)[0][0]
    d3.instance(f'{site}:end/error', ok=okend, wclass='end-error', what=f'END values {sorted(end_vals)} / ERROR values {sorted(err_vals)}: want one negative END value (only with 0 bytes left) and one different negative ERROR value')
    summary = {'end': list(end_vals)[0] if end_vals else None, 'error': list(err_vals)[0][0] if err_vals else None}
    # bookkeeping functions
    e, ps = cfgpaths.summarise(tu, 'utf8_decode_at_byte')
    okb = len(ps) == 1 and ps[0].ret() and ps[0].ret()[1] == fld + 'the_byte'
    d3.instance(f'{unit}:utf8_decode_at_byte', ok=okb, wclass='at_byte', what='utf8_decode_at_byte does not return the_byte')
    e, ps = cfgpaths.summarise(tu, 'utf8_decode_init')
    want = {fld + 'the_index': '0', fld + 'the_input': 'p', fld + 'the_length': 'length', fld + 'the_byte': '0'}
    # paths that only exist for a NULL state / input pointer are guards, not initialisations
    def guard(p): return any(e[0] == 'cond' and re.fullmatch(r'\(?!?\(?(u|p)\)?( == NULL)?\)?', e[1]) and ((e[2] and ('== NULL' in e[1] or e[1].lstrip('(').startswith('!'))) or (not e[2] and e[1] in ('u', 'p'))) for e in p.events)
    ps = [p for p in ps if not guard(p)]
    oki = len(ps) == 1 and all(ps[0].last_set(k) is not None and ps[0].last_set(k)[2] == v for k, v in want.items())
    d3.instance(f'{unit}:utf8_decode_init', ok=oki, wclass='init', what='utf8_decode_init does not set index 0 / input / length / the_byte 0', detail=ps[0].text() if ps else None)
    ck.sample({'decoder_cells': len(cells), 'abstract_runs': nrun, 'accepted_boxes': sum(len(v) for v in accepted.values()),
               'example_cells': [{'avail': c[0], 'bytes': fmt([c[1][j] for j in range(min(c[0], 4))]), 'value': [c[2], c[3]], 'consumed': c[4]} for c in cells[:3]]})
    ck.mc(len(cells), nrun)
    return summary
