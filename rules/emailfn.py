"""Path summaries of the is_<mode>_email functions (basic_email_check / check_tld / check_ip expanded) and the
twin-agreement rule shared by C01, C12, C16, C18."""
import re
import unitdb, cfgpaths
from report import AnalysisBroken

ASCII = {'822': 'src/is_822_email.c', '5321': 'src/is_5321_email.c', '5322': 'src/is_5322_email.c'}
BACKENDS = ('idn2', 'idn', 'idnkit')


def load(options=None, variant='', extra_defs=()):
    us = [u for u in unitdb.units(options, variant, extra_defs) if u.group != 'cli']
    want = set(ASCII.values()) | {f'partial/{b}/is_6531_email.c' for b in BACKENDS}
    tus = unitdb.load_asts([u for u in us if u.rel in want])
    return {k.split(':')[-1]: v for k, v in tus.items()}


def summaries(tus):
    """{unit key: (engine, paths)} for every e-mail function"""
    out = {}
    for mode, key in ASCII.items():
        if key not in tus: raise AnalysisBroken(f'{key} is not built')
        out[key] = cfgpaths.summarise(tus[key], f'is_{mode}_email')
    for b in BACKENDS:
        key = f'partial/{b}/is_6531_email.c'
        if key not in tus: raise AnalysisBroken(f'{key} not analysed')
        out[key] = cfgpaths.summarise(tus[key], 'is_6531_email')
    # every rule on these functions relies on the address being split by a search of the C string (strrchr and friends):
    # that is also what keeps NUL bytes out of the ranges handed to the part validators.  A hand-written search loop is
    # not judged (exit 2, construct named).
    for key, (eng, paths) in out.items():
        for p in paths:
            if any(re.fullmatch(r'is_\w+_local', c[1]) for c in p.calls()) and not any(c[1] in ('strrchr', 'strchr', 'memrchr', 'memchr') for c in p.calls()):
                raise AnalysisBroken(f'{key}: the address is no longer split with strrchr(email, \'@\') or another library search (a hand-written scan?): the rules that depend on the split point cannot judge it')
    return out


def normalise(p, rename=None, drop_asserts=True):
    """path -> tuple of strings; call symbols renumbered in order of appearance on the path; vocabulary renamed"""
    text = p.text()
    order = {}
    def sub(m):
        s = m.group(0)
        if s not in order:
            base = s.split('#')[0]
            k = sum(1 for x in order if x.split('#')[0] == base) + 1
            order[s] = f'{base}@{k}'
        return order[s]
    out = []
    loops = {}
    def subl(m):
        # loop tags carry the source line of the loop, which differs between sibling files: number them in order of appearance
        return '@L' + str(loops.setdefault(m.group(1), len(loops) + 1))
    for t in text:
        t = re.sub(r'(?:\(\*\w+\)|\w+)#\d+', sub, t)
        t = re.sub(r'@L(\d+)', subl, t)
        t = re.sub(r'\bloop L(\d+)', lambda m: 'loop L' + str(loops.setdefault(m.group(1), len(loops) + 1)), t)
        for a, b in (rename or {}).items(): t = t.replace(a, b)
        t = re.sub(r'__assert_fail\(.*\)', '__assert_fail(...)', t)
        out.append(t)
    return tuple(out)


def local_call(p):
    for c in p.calls():
        if re.fullmatch(r'is_\d+_local', c[1]): return c
    return None


def domain_branch(p):
    """'host' if the path validates a host name, 'literal' if it enters check_ip, else None (rejected earlier)"""
    if p.calls('is_ascii_domain') or p.calls('is_utf8_domain'): return 'host'
    if any(e[0] == 'cond' and (("!= '['" in e[1] and e[2] is False) or ("== '['" in e[1] and e[2] is True)) for e in p.events): return 'literal'
    return None
