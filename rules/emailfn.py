"""Path summaries of the is_<mode>_email functions (basic_email_check / check_tld / check_ip expanded) and the
twin-agreement rule shared by C01, C12, C16, C18."""
import re
import unitdb, cfgpaths
from report import AnalysisBroken

ASCII = {'822': 'src/is_822_email.c', '5321': 'src/is_5321_email.c', '5322': 'src/is_5322_email.c'}
BACKENDS = ('idn2', 'idn', 'idnkit')


def load(options=None, variant='', extra_defs=()):
    us = [u for u in unitdb.units(options, variant, extra_defs) if u.group != 'cli']
    want = set(ASCII.values()) | {f'partial/{b}/is_6531_email.c' for b in BACKENDS}
    tus = unitdb.load_asts([u for u in us if u.rel in want])
    return {k.split(':')[-1]: v for k, v in tus.items()}


def summaries(tus):
    """{unit key: (engine, paths)} for every e-mail function"""
    out = {}
    for mode, key in ASCII.items():
        if key not in tus: raise AnalysisBroken(f'{key} is not built')
        out[key] = cfgpaths.summarise(tus[key], f'is_{mode}_email')
    for b in BACKENDS:
        key = f'partial/{b}/is_6531_email.c'
        if key not in tus: raise AnalysisBroken(f'{key} not analysed')
        out[key] = cfgpaths.summarise(tus[key], 'is_6531_email')
    return out


def normalise(p, rename=None, drop_asserts=True):
    """path -> tuple of strings; call symbols renumbered in order of appearance on the path; vocabulary renamed"""
    text = p.text()
    order = {}
    def sub(m):
        s = m.group(0)
        if s not in order:
            base = s.split('#')[0]
            k = sum(1 for x in order if x.split('#')[0] == base) + 1
            order[s] = f'{base}@{k}'
        return order[s]
    out = []
    for t in text:
        t = re.sub(r'(?:\(\*\w+\)|\w+)#\d+', sub, t)
        for a, b in (rename or {}).items(): t = t.replace(a, b)
        t = re.sub(r'__assert_fail\(.*\)', '__assert_fail(...)', t)
        out.append(t)
    return tuple(out)


def local_call(p):
    for c in p.calls():
        if re.fullmatch(r'is_\d+_local', c[1]): return c
    return None


def domain_branch(p):
    """'host' if the path validates a host name, 'literal' if it enters check_ip, else None (rejected earlier)"""
    if p.calls('is_ascii_domain') or p.calls('is_utf8_domain'): return 'host'
    if any(e[0] == 'cond' and "!= '['" in e[1] and e[2] is False for e in p.events): return 'literal'
    return None
