"""C09 - reserved domains recognised exactly, whatever precedes them.
Structural conditions on is_special_domain (it navigates with strchr and pointer differences, outside the scanner
subset, so the label-sequence language is not extracted): tables, label navigation, and - on every path - which
label the verdict is based on and whether each length short-cut is sound for the tables it guards."""
import re, zlib
import unitdb, cfgpaths, tables, astutil
from rules import shared
from report import AnalysisBroken

LEVEL = 'other'
RESERVED = {'test', 'example', 'invalid', 'localhost', 'onion'}
EXAMPLE = {'com', 'net', 'org'}


def len_atoms(p, P):
    """cond events of the form (LEN op K) where LEN is the length of the label starting at P"""
    out = []
    for e in p.events:
        if e[0] != 'cond': continue
        m = re.fullmatch(r'\((.+) (<|>|<=|>=|==|!=) (\d+)\)', e[1])
        if not m: continue
        L = m.group(1)
        if L == f'(end - {P})' or re.fullmatch(r"\(strchr#\d+'* - " + re.escape(P) + r'\)', L): out.append((m.group(2), int(m.group(3)), e[2]))
    return out


def admits(conds, n):
    ev = lambda op, k: {'<': n < k, '>': n > k, '<=': n <= k, '>=': n >= k, '==': n == k, '!=': n != k}[op]
    return all(ev(op, k) == t for op, k, t in conds)


def run(ck):
    us = [u for u in unitdb.units() if u.rel == 'src/is_special_domain.c']
    if not us: raise AnalysisBroken('src/is_special_domain.c is not built')
    tu = unitdb.load_asts(us)['src/is_special_domain.c']
    site = 'src/is_special_domain.c:is_special_domain'
    ck.analysed(units=['src/is_special_domain.c'], functions=[site])
    # ---- R9.1 tables
    r1 = ck.rule('R9.1', 'reserved[] = {test, example, invalid, localhost, onion}, example[] = {com, net, org}, every length field = strlen + 1 (whole-label, NUL included)', 8)
    for name, want in (('reserved', RESERVED), ('example', EXAMPLE)):
        v, rows = tables.global_table(tu, name)
        got = {r[0] for r in rows}
        r1.instance(f'{site}:{name}[]', ok=(got == want and len(rows) == len(want)), wclass='table-set', what=f'{name}[] = {sorted(got)}, statement lists {sorted(want)}')
        for r in rows:
            r1.instance(f'{site}:{name}[{r[0]}]', ok=(r[1] == len(r[0]) + 1 and r[0] == r[0].lower()), wclass='table-length', what=f'{name}[] entry {r} has length != strlen + 1 (prefix or over-long comparison) or is not lower case')
    eng, paths = cfgpaths.summarise(tu, 'is_special_domain')
    # comparisons hidden in helpers that could not be spliced in (they loop over a table) are outside what R9.2 / R9.3 can trace
    hidden = sorted({c[1] for p in paths for c in p.calls() if c[1] in tu.functions and c[1] != 'is_special_domain'})
    if hidden: raise AnalysisBroken(f'{site}: the label comparisons are made inside the helper(s) {hidden}, which the path rules cannot look into; re-confirm R9.2 / R9.3')
    # ---- R9.4 navigation
    r4 = ck.rule('R9.4', 'navigation: dots are counted from start, a root dot is discounted, whole labels are skipped while more than two remain (count >= 2), the example.<tld> test reads the label before the last dot', 3)
    allev = [e for p in paths for e in p.events]
    atoms = {e[1] for e in allev if e[0] == 'cond'}
    sets = {(e[1], e[2]) for e in allev if e[0] == 'set'}
    calls = {(e[1], e[2]) for e in allev if e[0] == 'call'}
    # the counter is whichever local is incremented by one (names do not matter); the cursor is the local set to result + 1
    counters = {l for l, v in sets if re.fullmatch(r'\w+', l) and (re.fullmatch(r"\(" + re.escape(l) + r"@L\d+'* \+ 1\)", v) or v == '(0 + 1)')}
    cnt_ok = ('strchr', ('start', "'.'")) in calls and bool(counters) and any(re.fullmatch(r'\w+', l) and re.fullmatch(r"\(strchr#\d+'* \+ 1\)", v) for l, v in sets)
    r4.instance(f'{site}:count-loop', ok=cnt_ok, wclass='count-loop', what='the dot-counting loop (strchr from start, cursor = result + 1, counter + 1) is not recognised')
    root_ok = bool({"(end[-1] == '.')", "(*(end - 1) == '.')", "('.' == end[-1])", "('.' == *(end - 1))"} & atoms) and any(l in counters and re.fullmatch(r"\(.+ - 1\)", v) for l, v in sets)
    r4.instance(f'{site}:root-dot', ok=root_ok, wclass='root-dot', what='the root-dot adjustment (last byte == \'.\' => counter - 1) is not recognised')
    cre = '|'.join(re.escape(c) for c in sorted(counters)) or 'count'
    skips = [a for a in atoms if re.fullmatch(r"\(.*(?:" + cre + r").* (>=|>) \d+\)", a) and 'strchr' not in a]
    ok_skip = bool(skips)
    for a in skips:
        m = re.fullmatch(r"\((.*) (>=|>) (\d+)\)", a); op, K = m.group(2), int(m.group(3))
        cont = lambda c: (c >= K) if op == '>=' else (c > K)
        if not (cont(2) and not cont(1)): ok_skip = False
    r4.instance(f'{site}:skip-loop', ok=ok_skip, wclass='skip-loop', what=f'labels are skipped under {sorted(skips)}: want "while two or more dots remain" (continue at 2, stop at 1)')
    # ---- per-path rules
    r3 = ck.rule('R9.3', 'every NO verdict of a multi-label domain is based on the last label: it was compared with reserved[] or left through a length short-cut on the last label that excludes no reserved word', 50)
    r2 = ck.rule('R9.2', 'every YES verdict follows a whole-label strncasecmp match: last label vs reserved[] (length = entry length), or "example" (n = 8) on the label before the last dot followed by com/net/org on a 3-byte last label', 5)
    # last-label start pointers: P such that both len := (end - P) and len := (strchr(P,'.') - P) occur
    # (the length variable is whichever local receives both forms; its name does not matter)
    ends = set(); mids = set()
    by_var = {}
    for l, v in sets:
        if not re.fullmatch(r'\w+', l): continue
        if re.fullmatch(r'\(end - (.+)\)', v): by_var.setdefault(l, set()).add('end')
        if re.fullmatch(r"\((strchr#\d+'*) - (.+)\)", v): by_var.setdefault(l, set()).add('mid')
    lenvars = {l for l, k in by_var.items() if k == {'end', 'mid'}}
    for l, v in sets:
        if l not in lenvars: continue
        m = re.fullmatch(r'\(end - (.+)\)', v)
        if m: ends.add(m.group(1))
        m = re.fullmatch(r"\((strchr#\d+'*) - (.+)\)", v)
        if m: mids.add(m.group(2))
    P_last = {P for P in ends & mids if P != 'start'}
    if not P_last: raise AnalysisBroken(f'{site}: no last-label pointer recognised (len := end - P and len := strchr(P) - P)')
    res_len = sorted({len(w) for w in RESERVED})
    bad3 = {}; bad2 = {}
    n_no = n_yes = 0
    for p in paths:
        rv = p.ret()[1]
        single = any(c[1] == 'strncasecmp' and c[2][0] == 'start' for c in p.calls()) or any(e[0] == 'cond' and e[1].startswith('((end - start)') for e in p.events)
        cmps = [c for c in p.calls('strncasecmp')]
        def label_source(c):
            """(pointer to the label in the input that is being compared, its length expression or None)"""
            i = p.events.index(c)
            comp = [a for a in c[2][:2] if not a.startswith('"') and 'reserved[' not in a and 'example[' not in a]
            if not comp: return None, None
            x = comp[0]
            cp = [e for e in p.events[:i] if e[0] == 'call' and e[1] == 'memcpy' and e[2][0] == x]
            if cp: return cp[-1][2][1], cp[-1][2][2]                     # a NUL-terminated copy of the label
            if x == 'start' or x in P_last or re.fullmatch(r"\w+@L\d+'*|\(strchr#\d+'* \+ 1\)", x): return x, None      # compared in place
            raise AnalysisBroken(f'{site}: the compared string {x} is neither a memcpy copy of a label nor a pointer into the input: R9.2 / R9.3 cannot trace which label it is; re-confirm')
        def whole_label(c, tbl_lens):
            """does this comparison match only whole labels?  -> None if yes, else the reason"""
            x, ln = label_source(c)
            n = c[2][2]
            copied = ln is not None
            if re.fullmatch(r"\w+\[.+\]\.length", n) or (n.isdigit() and c[2][0].startswith('"') and int(n) == len(c[2][0]) - 2 + 1):
                if copied: return None                                   # NUL-terminated copy, entry length incl. NUL
                if x == 'start' and single: return None                  # the whole (single-label) string, NUL at its end
                if any(e[0] == 'set' and e[1] in lenvars and e[2] == f'(end - {x})' for e in p.events): return None      # last label, ends at the terminator
                return f'compares {n} bytes in place at {x}, which is not known to be followed by the terminator'
            # n is the label's own length: an entry longer than the label matches by prefix unless the lengths are pinned
            A = [k for k in range(1, 65) if admits(len_atoms(p, x if not copied else x), k)] if (copied or True) else []
            if n.isdigit(): A = [int(n)]
            bad = sorted({k for k in A for L in tbl_lens if k < L})
            if bad: return f'compares only the label\'s own {n} byte(s): a label of length {bad} that is a proper prefix of a table entry matches'
            return None
        res_cmp = [c for c in cmps if any('reserved[' in a for a in c[2])]
        if rv == '0':
            n_no += 1
            if single:
                conds = len_atoms(p, 'start')
                if not res_cmp:
                    adm = [n for n in res_len if admits(conds, n)]
                    if not conds or adm: bad3.setdefault(f'single-label NO without comparing reserved[]; short-cut admits reserved lengths {adm}', p.text()[-6:])
                continue
            # a guard on a search that cannot fail: after the counting loop found at least one dot (and that many are still
            # ahead of the cursor), strchr(_, '.') == NULL followed at once by return NO never fires (same invariant as C06 `counted`)
            ev_ = p.events
            if len(ev_) >= 2 and ev_[-1][0] == 'return' and ev_[-2][0] == 'cond':
                g = re.fullmatch(r"\(?(strchr#\d+'*)(?: == NULL)?\)?", ev_[-2][1])
                dead = g and ((ev_[-2][2] is False and '==' not in ev_[-2][1]) or (ev_[-2][2] is True and '==' in ev_[-2][1]))
                if dead:
                    cs_ = [c for c in p.calls('strchr') if c[3] == g.group(1)]
                    counted_first = any(c[2][1] == "'.'" and p.passed(c[3], True) for c in p.calls('strchr')[:1])
                    if cs_ and cs_[0][2][1] == "'.'" and cs_[0] is not p.calls('strchr')[0] and counted_first: continue
            ok = False; why = 'NO without examining the last label (the verdict rests on another label)'
            for P in P_last:
                conds = len_atoms(p, P)
                from_last = [c for c in res_cmp if label_source(c)[0] == P]
                if from_last: ok = True
                elif conds:
                    adm = [n for n in res_len if admits(conds, n)]
                    if not adm: ok = True
                    else: why = f'NO through a length short-cut on the last label that admits reserved word lengths {adm} without comparing them'
            if not ok: bad3.setdefault(why, p.text()[-6:])
        else:
            n_yes += 1
            hit = [c for c in cmps if p.passed(c[3], False)]
            if not hit: bad2.setdefault('YES without a matching comparison', p.text()[-4:]); continue
            h = hit[-1]; a = h[2]
            tl = [len(w) for w in (RESERVED if any('reserved[' in x for x in a) else EXAMPLE if any('example[' in x for x in a) else {'example'})]
            wl = whole_label(h, tl)
            if wl: bad2.setdefault(wl, None)
            for ex_ in [c for c in cmps if '"example"' in c[2] and p.passed(c[3], False)]:
                wl = whole_label(ex_, [7])
                if wl: bad2.setdefault(wl, None)
            if any('reserved[' in x for x in a):
                src = 'start' if a[0] == 'start' else label_source(h)[0]
                if not (src == 'start' and single) and src not in P_last: bad2.setdefault(f'reserved[] compared with a label copied from {src}, not the last label', None)
                pass
            elif any('example[' in x for x in a):
                src, ln = label_source(h)
                if src not in P_last: bad2.setdefault(f'example[] compared with a label copied from {src}', None)
                if not any(admits(len_atoms(p, P), 3) and not admits(len_atoms(p, P), 4) and not admits(len_atoms(p, P), 2) for P in P_last): bad2.setdefault('example[] compared although the last label is not known to be 3 bytes', None)
                ex = [c for c in cmps if '"example"' in c[2] and p.passed(c[3], False)]
                q = label_source(ex[0])[0] if ex else None
                if not ex: bad2.setdefault('com/net/org accepted without an "example" match on the label before it', None)
                else:
                    if not any(P == f'({s} + 1)' and (s, (q, "'.'")) in {(c[3], c[2]) for c in p.calls('strchr')} for P in P_last for s in [P[1:-5]]):
                        bad2.setdefault(f'"example" is read from {q}, which is not the label ending at the last dot', None)
            else:
                bad2.setdefault(f'YES after comparing {a}', None)
    if n_no < 10 or n_yes < 3: raise AnalysisBroken(f'{site}: only {n_no} NO / {n_yes} YES paths')
    for i in range(n_no - len(bad3)): r3.instance(site, ok=True)
    for why, det in bad3.items(): r3.instance(site, ok=False, wclass=why.split(' ')[0] + ':' + str(zlib.crc32(why.encode()) % 1000), what=why, detail=det)
    for i in range(n_yes - len(bad2)): r2.instance(site, ok=True)
    for why, det in bad2.items(): r2.instance(site, ok=False, wclass='yes:' + str(zlib.crc32(why.encode()) % 1000), what=why, detail=det)
    # CHECK loops run over the whole table
    r5 = ck.rule('R9.5', 'table scans run over ARRAY_SIZE(table) entries starting at 0', 1)
    _, rrows = tables.global_table(tu, 'reserved'); _, erows = tables.global_table(tu, 'example')
    loops = {a for a in atoms if re.fullmatch(r"\(i@L\d+'* < \d+\)", a)}
    bounds = sorted({int(re.search(r'< (\d+)\)', a).group(1)) for a in loops})
    r5.instance(f'{site}:CHECK', ok=(bounds == sorted({len(rrows), len(erows)})), wclass='check-loop', what=f'table scans are bounded by {bounds}, tables have {len(rrows)} and {len(erows)} entries')
    ck.sample({'paths': len(paths), 'NO_paths': n_no, 'YES_paths': n_yes, 'last_label_pointer': sorted(P_last)})
    ck.undecided('the full label-sequence language of is_special_domain (navigation by strchr is outside the scanner subset); buffer bounds are C06')
    ck.assume('the domain is a valid host name without root dot and ends at the string terminator (statement)')
