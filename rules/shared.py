"""Rule fragments used by more than one property."""
import re
import cfgpaths, astutil
from report import AnalysisBroken


def is_tld_shape(tu):
    """R7.2 / R11.0: is_tld(start,end) is a first-match linear search of tld_list up to the NULL-domain sentinel,
    comparing with strncasecmp(row.domain, start, row.length) and returning row.type; every other exit is
    -EEAV_TLD_INVALID (including start == end)."""
    eng, paths = cfgpaths.summarise(tu, 'is_tld')
    params = tu.params('is_tld')
    if len(params) != 2: return {'ok': False, 'why': f'is_tld takes {params}'}
    start, end = params
    why = []
    match = [p for p in paths if p.ret() and not str(p.ret()[1]).startswith('-')]
    other = [p for p in paths if p not in match]
    # is this still the idiom the rule understands - a scan of the table rows comparing row->domain with the label
    # in place?  A different algorithm (copy and compare, binary search, ...) is not judged here: exit 2, not an alarm.
    cmpf = ('strncasecmp', 'strcasecmp', 'strncmp', 'strcmp', 'memcmp')
    recognised = any(c[1] in cmpf and any(re.fullmatch(r".+->domain", a) for a in c[2][:2]) and start in c[2][:2] for p in paths for c in p.calls())
    if recognised and any('tld_list[' in a for p in paths for c in p.calls() if c[1] in cmpf for a in c[2][:2]):
        raise AnalysisBroken('is_tld walks the table by index (tld_list[i]) instead of by row pointer: the lookup-shape rule has no model for that form; re-confirm R7.2 / R11.0')
    if not recognised:
        alt = tld_copy_idiom(tu, paths, start, end)
        if alt is not None: return alt
        raise AnalysisBroken('is_tld no longer compares row->domain with the label in place (a different lookup algorithm): the lookup-shape rule cannot judge it; re-confirm R7.2 / R11.0')
    if not match: why.append('no path returns a class')
    # every call on a lookup path must belong to the comparison family: anything else (an index builder, tolower, a
    # helper) is a lookup algorithm this rule has no model for
    foreign = sorted({c[1] for p in paths for c in p.calls() if c[1] not in cmpf and c[1] not in ('__ctype_b_loc',)})
    if foreign:
        raise AnalysisBroken(f'is_tld calls {foreign} during the lookup: a lookup algorithm the lookup-shape rule has no model for; re-confirm R7.2 / R11.0')
    # a row may be passed over only after it was compared: an iteration that reaches the back edge without a comparison
    # filters rows on some other condition
    for p in paths:
        seg = None
        for e in p.events:
            if e[0] == 'loop' and (e[1].endswith(':enter') or e[1].endswith(':again')): seg = []
            elif e[0] == 'loop' and e[1].endswith(':backedge'):
                if seg is not None and not any(x[0] == 'call' and x[1] in cmpf for x in seg):
                    conds = [x for x in seg if x[0] == 'cond' and not re.fullmatch(r".+->domain", x[1])]
                    # length filters: a row whose length cannot equal the label's may be passed over unseen
                    lf = [(x, _len_filter(x[1], start, end)) for x in conds]
                    if any(f is not None and _holds(0, f[0], f[1]) != x[2] for x, f in lf):
                        seg = None; continue             # this iteration is only taken when the lengths differ: nothing to compare
                    conds = [x for x, f in lf if f is None]
                    if not conds and lf:
                        why.append(f'a row is passed over on the length test(s) {[x[1] for x, f in lf]} although its length can equal the label\'s'); seg = None; continue
                    direct = [x for x in conds if re.fullmatch(r"\((?:\*?[^()]*->domain(?:\[\d+\])?|\*" + re.escape(start) + r"|" + re.escape(start) + r"\[\d+\]) (?:!=|==) (?:\*?[^()]*->domain(?:\[\d+\])?|\*" + re.escape(start) + r"|" + re.escape(start) + r"\[\d+\])\)", x[1])]
                    if direct:
                        why.append(f'a row is passed over without strncasecmp on the byte-exact test {direct[0][1]} (table entries are lower case, the label need not be: the match is no longer case-insensitive)')
                    else:
                        raise AnalysisBroken(f'is_tld passes over a row without comparing it, on {[x[1] for x in conds]}: a filter the lookup-shape rule has no model for; re-confirm R7.2 / R11.0')
                seg = None
            elif seg is not None: seg.append(e)
    for p in match:
        calls = [c for c in p.calls() if c[1] not in ('__ctype_b_loc',)]
        if not calls or any(c[1] != 'strncasecmp' for c in calls) or any(not p.passed(c[3], True) for c in calls[:-1]):
            why.append(f'class returned after calls {[c[1] for c in calls]} (want strncasecmp per row, all earlier rows not matching)'); continue
        calls = calls[-1:]
        a = calls[0][2]
        row = None
        for x, y in ((a[0], a[1]), (a[1], a[0])):
            m = re.fullmatch(r'(.+)->domain', x)
            if m and y == start: row = m.group(1)
        if row is None: why.append(f'strncasecmp compares {a[0]} with {a[1]} (want <row>->domain with {start})'); continue
        if a[2] != f'{row}->length':
            # comparing over the label's own length is a whole-label match only where the path has established that the
            # label is exactly as long as the entry
            lo, hi = -10 ** 9, 10 ** 9
            for e in p.events:
                if e[0] != 'cond': continue
                f = _len_filter(e[1], start, end, row)
                if f is None: continue
                op, k = f
                if not e[2]: op = {'<': '>=', '<=': '>', '>': '<=', '>=': '<', '==': '!=', '!=': '=='}[op]
                if op == '==': lo, hi = max(lo, k), min(hi, k)
                elif op == '<': hi = min(hi, k - 1)
                elif op == '<=': hi = min(hi, k)
                elif op == '>': lo = max(lo, k + 1)
                elif op == '>=': lo = max(lo, k)
            n = _label_len(a[2], start, end)
            if n is not None and n >= 0 and (lo, hi) == (0, 0): pass
            elif n is not None and n >= 0: why.append(f'strncasecmp compares {a[2]} bytes, the label\'s own length, on a path where the label may be shorter than the entry: a proper prefix of a listed name matches (want {row}->length, NUL included)')
            else: why.append(f'compared length is {a[2]} (want {row}->length)')
        if not p.passed(calls[0][3], False): why.append('class returned although strncasecmp result is not tested == 0')
        if p.ret()[1] != f'{row}->type': why.append(f'returns {p.ret()[1]} (want {row}->type)')
        if row != 'tld_list' and not re.fullmatch(r"\w+@L\d+'*", row): why.append(f'search starts at {row} (want tld_list, the first row)')
        if not p.passed(f'{row}->domain', True): why.append('row used without the sentinel test <row>->domain != NULL')
    for p in other:
        r = p.ret()
        if r is None or r[1] != '-EEAV_TLD_INVALID': why.append(f'non-class exit returns {r[1] if r else None}')
    loops = [e for p in paths for e in p.events if e[0] == 'loop' and e[1].endswith(':backedge')]
    if not loops: why.append('no loop over the table')
    if not any(p.passed('tld_list->domain', True) for p in match): why.append('the first row is not examined')
    for p in paths:
        i = p.index(lambda e: e[0] == 'loop' and e[1].endswith(':backedge'))
        if i >= 0:
            st = [e for e in p.events[:i] if e[0] == 'set' and e[1] == _itervar(p)]
            if not st or st[-1][2] != '(tld_list + 1)': why.append(f'iteration step is {st[-1][2] if st else None} (want +1 row)')
            if p.ret() and str(p.ret()[1]).startswith('-') and not any(e[0] == 'cond' and re.fullmatch(r".+@L\d+'*->domain", e[1]) and e[2] is False for e in p.events[i:]):
                why.append('loop does not end at the NULL-domain sentinel')
    return {'ok': not why, 'why': '; '.join(sorted(set(why))), 'paths': len(paths)}


def _label_len(expr, start, end):
    """expr == (end - start) + c  ->  c, else None"""
    base = f'({end} - {start})'
    if expr == base: return 0
    m = re.fullmatch(r'\(' + re.escape(base) + r' ([+-]) (\d+)\)', expr)
    if m: return int(m.group(2)) * (1 if m.group(1) == '+' else -1)
    return None


def _row_len(expr, row=None):
    """expr == <row>->length + c  ->  c, else None"""
    m = re.fullmatch(r"(.+)->length", expr)
    if m and (row is None or m.group(1) == row): return 0
    m = re.fullmatch(r"\((.+)->length ([+-]) (\d+)\)", expr)
    if m and (row is None or m.group(1) == row): return int(m.group(3)) * (1 if m.group(2) == '+' else -1)
    return None


def _len_filter(cond, start, end, row=None):
    """a comparison between the label's length and a table entry's length field (strlen + 1), as (op, k) meaning
    (len - strlen(entry)) op k ; None if the condition is not of that kind"""
    m = re.fullmatch(r'\((.+) (<|<=|>|>=|==|!=) (.+)\)', cond)
    if not m: return None
    L, op, R = m.group(1), m.group(2), m.group(3)
    a, b = _label_len(L, start, end), _row_len(R, row)
    if a is not None and b is not None: return op, b - a + 1          # len + a op S + 1 + b
    a, b = _label_len(R, start, end), _row_len(L, row)
    if a is not None and b is not None:
        return {'<': '>', '<=': '>=', '>': '<', '>=': '<=', '==': '==', '!=': '!='}[op], b - a + 1
    return None


def _holds(d, op, k):
    return {'<': d < k, '<=': d <= k, '>': d > k, '>=': d >= k, '==': d == k, '!=': d != k}[op]


def _itervar(p):
    for e in p.events:
        if e[0] == 'set' and e[2] == 'tld_list': return e[1]
    return None


def assignable_classes(tu):
    """names X of every TLD_TYPE_X strictly between TLD_TYPE_UNUSED and TLD_TYPE_MAX"""
    for names in tu.enum_decls.values():
        if 'TLD_TYPE_UNUSED' in names and 'TLD_TYPE_MAX' in names:
            i, j = names.index('TLD_TYPE_UNUSED'), names.index('TLD_TYPE_MAX')
            return [n[len('TLD_TYPE_'):] for n in names[i + 1:j]]
    raise AnalysisBroken('enum with TLD_TYPE_UNUSED .. TLD_TYPE_MAX not found')


def value_is_zero(p, v):
    """is the symbolic value v known to be 0 on path p (literally, or by a branch the path took)?"""
    if v in ('0', 'EEAV_NO_ERROR'): return True
    if v is None: return False
    return (p.passed(f'({v} != EEAV_NO_ERROR)', False) or p.passed(f'({v} == EEAV_NO_ERROR)', True) or p.passed(v, False)
            or p.passed(f'({v} != 0)', False) or p.passed(f'({v} == 0)', True) or p.passed(f'(!{v})', True))


def value_is_nonzero(p, v, before=None):
    """the path has taken the non-zero side of a test of v against 0 / EEAV_NO_ERROR (any spelling)"""
    return (p.passed(f'({v} != EEAV_NO_ERROR)', True, before) or p.passed(f'({v} == EEAV_NO_ERROR)', False, before) or p.passed(v, True, before)
            or p.passed(f'({v} != 0)', True, before) or p.passed(f'({v} == 0)', False, before))


def literal_family(p):
    """for a path through the address-literal branch: is the literal validated, and which family does the path
    *establish* (R5.3)?  is_ipv4()/is_ipv6() establish their own family; is_ipaddr() accepts either, so the path must
    also have searched its argument range for ':' and branched on the result."""
    V = [c for c in p.calls() if c[1] in ('is_ipaddr', 'is_ipv4', 'is_ipv6')]
    valid = bool(V) and all(p.passed(c[3], True) for c in V)
    if not valid: return {'valid': False, 'family': None, 'why': ''}
    c = V[-1]
    if c[1] == 'is_ipv4': return {'valid': True, 'family': 'is_ipv4', 'why': ''}
    if c[1] == 'is_ipv6': return {'valid': True, 'family': 'is_ipv6', 'why': ''}
    for s in p.calls():
        if s[1] in ('strchr', 'memchr', 'strrchr') and len(s[2]) >= 2 and s[2][1] == "':'" and s[2][0] == c[2][0]:
            if p.passed(s[3], True): return {'valid': True, 'family': 'is_ipv6', 'why': ''}
            if p.passed(s[3], False): return {'valid': True, 'family': 'is_ipv4', 'why': ''}
    return {'valid': True, 'family': None,
            'why': f'literal accepted through {c[1]}{c[2]}, which accepts IPv4 and IPv6, and the path does not establish the family before setting the flag'}


def ptr_off(expr):
    """normalise a rendered pointer expression  ((X + a) + b) - c ...  to (X, a + b - c)"""
    e = expr.strip(); off = 0
    while True:
        m = re.fullmatch(r'\((.+) ([+-]) (\d+)\)', e)
        if not m: break
        inner = m.group(1)
        d = 0; ok = True
        for ch in inner:
            if ch == '(': d += 1
            elif ch == ')':
                d -= 1
                if d < 0: ok = False; break
        if not ok or d != 0: break
        off += int(m.group(3)) * (1 if m.group(2) == '+' else -1); e = inner
    return e, off


def tld_copy_idiom(tu, paths, start, end):
    """second lookup idiom: the label is copied (folded) into a local buffer which is then compared with each row.
    Conditions that keep the statement true: the whole label [start, end) is in the buffer when a row is compared (a
    label longer than the buffer must be rejected, not compared by its prefix); the comparison is case-insensitive
    (folding copy + exact compare, or plain copy + strcasecmp); whole-string compare; match => row->type, otherwise
    -EEAV_TLD_INVALID; leaving the table early is only allowed on `label < row` with a table sorted in strcmp order."""
    arrays = {d['name'] for d in __import__('astutil').find(tu.fn('is_tld'), 'VarDecl') if re.fullmatch(r'(?:unsigned |signed )?char\[\d+\]', d.get('type', {}).get('qualType', ''))}
    cmpf = ('strcmp', 'strcasecmp', 'strncmp', 'strncasecmp', 'memcmp')
    def cmp_calls(p):
        return [c for c in p.calls() if c[1] in cmpf and any(a in arrays for a in c[2][:2]) and any(re.fullmatch(r".+->domain", a) for a in c[2][:2])]
    if not any(cmp_calls(p) for p in paths): return None
    why = []
    for p in paths:
        cs = cmp_calls(p)
        r = p.ret()
        if not cs:
            if r is None or r[1] != '-EEAV_TLD_INVALID': why.append(f'exit without lookup returns {r[1] if r else None}')
            continue
        i0 = p.events.index(cs[0])
        buf = [a for a in cs[0][2][:2] if a in arrays][0]
        # B1 whole label
        last = None
        for e in p.events[:i0]:
            if e[0] == 'cond' and re.fullmatch(r"\(\(" + re.escape(start) + r" \+ .+\) < " + re.escape(end) + r"\)", e[1]): last = e
        if last is None or last[2] is not False:
            why.append(f'a label that does not fit into {buf}[] is compared by its prefix (the copy stopped before {end})')
        # B2 case folding
        writes = [e for e in p.events[:i0] if e[0] == 'set' and e[1].startswith(buf + '[') and e[2] not in ('0', "'\\x00'")]
        if writes and not all(f'{start}[' in e[2] for e in writes): why.append(f'{buf}[] is not a copy of the label')
        def stored_expr(e):
            # the expression as written (a conditional store is one fold, even though its two outcomes are separate paths)
            n = e[-1]
            if isinstance(n, dict) and n.get('kind') == 'BinaryOperator' and n.get('opcode') == '=':
                try: return cfgpaths.Engine(tu, 'is_tld').render(n['inner'][1], cfgpaths.Path())
                except Exception: return e[2]
            return e[2]
        folding = all(("'A'" in stored_expr(e) and "'Z'" in stored_expr(e)) or 'tolower' in stored_expr(e) for e in writes) if writes else True
        for c in cs:
            if c[1] in ('strcmp', 'strncmp', 'memcmp') and not folding: why.append(f'{c[1]} on an unfolded copy: comparison is case-sensitive')
            if c[1] in ('strncmp', 'strncasecmp', 'memcmp') and not re.fullmatch(r'.+->length', c[2][2]): why.append(f'{c[1]} over {c[2][2]} bytes is not a whole-label comparison')
        if not any(e[0] == 'set' and e[1].startswith(buf + '[') and e[2] in ('0', "'\\x00'") for e in p.events[:i0]): why.append(f'{buf}[] is not NUL-terminated before the comparison')
        # B3 / B4 verdicts
        hit = [c for c in cs if p.passed(c[3], False)]
        if r is None: continue
        if not str(r[1]).startswith('-'):
            rows = [a for a in (hit[-1][2][:2] if hit else ()) if a.endswith('->domain')]
            if not hit or r[1] != rows[0][:-len('domain')] + 'type': why.append(f'returns {r[1]} without a matching comparison of that row')
        else:
            if r[1] != '-EEAV_TLD_INVALID': why.append(f'non-class exit returns {r[1]}')
            sentinel = any(e[0] == 'cond' and re.fullmatch(r".+->domain", e[1]) and e[2] is False for e in p.events[i0:])
            if not sentinel:
                lt = any(e[0] == 'cond' and re.fullmatch(r"\((strcmp#\d+'*) < 0\)", e[1]) and e[2] for e in p.events[i0:])
                ordered = cs[-1][1] == 'strcmp' and cs[-1][2][0] in arrays
                if not (lt and ordered and table_sorted(tu)): why.append('the scan is left before the sentinel on a condition that is not "label < row in a strcmp-sorted table"')
    return {'ok': not why, 'why': '; '.join(sorted(set(why))), 'paths': len(paths), 'idiom': 'copy-then-compare'}


_sorted_cache = {}
def table_sorted(tu):
    """tld_list rows in strcmp (byte) order - read from src/auto_tld.c"""
    if 'v' in _sorted_cache: return _sorted_cache['v']
    import unitdb, tables
    us = [u for u in unitdb.units() if u.rel == 'src/auto_tld.c']
    t = unitdb.load_asts(us)['src/auto_tld.c']
    _, rows = tables.global_table(t, 'tld_list')
    names = [r[0].encode() for r in rows[:-1]]
    _sorted_cache['v'] = names == sorted(names)
    return _sorted_cache['v']


def lin_form(expr):
    """linear normal form of a rendered pointer/integer expression (every atom is a symbol), or None if it is not a
    sum/difference of atoms and constants"""
    from rules.echo import lin_parse
    class Any(dict):
        def __contains__(self, k): return True
        def __getitem__(self, k): return {k: 1}
    try: return lin_parse(expr, Any())
    except (KeyError, ValueError): return None


def same_value(a, b):
    """two rendered expressions denote the same value: identical text, or equal linear normal forms
    ( (((X + 1) - e) - 1) == (X - e) )"""
    if a == b: return True
    fa, fb = lin_form(a), lin_form(b)
    return fa is not None and fa == fb


def passed_equation(p, lhs, rhs, truth, before=None):
    """the path took the `truth` side of a test that says lhs == rhs in any spelling: a == b / b == a / a != b with the
    other outcome, with the two sides rearranged ((ch - e) + 1 == length  for  ch + 1 == e + length)"""
    want = lin_form(f'({lhs}) - ({rhs})')
    if want is None: return False
    neg = {k: -c for k, c in want.items()}
    ev = p.events if before is None else p.events[:before]
    for e in ev:
        if e[0] != 'cond': continue
        m = re.fullmatch(r'\((.+) (==|!=) (.+)\)', e[1])
        if not m: continue
        got = lin_form(f'({m.group(1)}) - ({m.group(3)})')
        if got is None or got not in (want, neg): continue
        if (m.group(2) == '==') == (e[2] == truth): return True
    return False
