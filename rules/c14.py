"""C14 - thread safety: no shared mutable state to race on.
The schedule quantifier disappears when (R14.1) no library unit defines a mutable global or function-local static,
(R14.2) every store, and every write made through a callee that writes via a pointer argument, lands in a local
object, in memory the function allocated itself, or behind a non-const pointer parameter (the caller's own eav_t /
result / decoder state), (R14.3) the library calls only functions from a frozen list of re-entrant externals, and
(R14.4) the decoder state is passed by pointer everywhere.  All library units of the three backends (LLVM IR)."""
import re
import unitdb, irfacts, astutil
from report import AnalysisBroken

LEVEL = 'other'
# external callees the library may use, with the index of pointer arguments they write through (None = none)
ALLOWED = {
    'malloc': [], 'calloc': [], 'realloc': [], 'free': [], 'strndup': [], 'strdup': [], 'strlen': [], 'strnlen': [], 'strchr': [], 'strrchr': [], 'strspn': [], 'strcspn': [], 'strpbrk': [], 'strstr': [],
    'strcmp': [], 'strncmp': [], 'strcasecmp': [], 'strncasecmp': [], 'memcmp': [], 'memchr': [], 'memrchr': [], 'strcpy': [0], 'strncpy': [0], 'strcat': [0], 'strncat': [0], 'memmove': [0], 'memset': [0],
    'tolower': [], 'toupper': [], '__ctype_tolower_loc': [], '__ctype_toupper_loc': [], 'abs': [], 'labs': [], 'bsearch': [], 'snprintf': [0], 'llvm.memmove.p0i8.p0i8.i64': [0],
    'memcpy': [0], 'llvm.memcpy.p0i8.p0i8.i64': [0], 'llvm.memset.p0i8.i64': [0], '__ctype_b_loc': [], '__assert_fail': [], 'abort': [],
    'idn2_to_ascii_8z': [1], 'idn2_lookup_ul': [1], 'idn2_strerror': [], 'idna_to_ascii_lz': [1], 'idna_to_ascii_8z': [1], 'idna_strerror': [],
    'idn_resconf_initialize': [], 'idn_resconf_create': [0], 'idn_resconf_destroy': [], 'idn_res_encodename': [3], 'idn_result_tostring': [],
    'llvm.dbg.declare': [], 'llvm.dbg.value': [], 'llvm.dbg.label': [], 'llvm.lifetime.start.p0i8': [], 'llvm.lifetime.end.p0i8': [],
}
NOTE = {'idn_resconf_initialize': 'idnkit: documented as safe to call repeatedly; process-wide initialisation is idnkit\'s own (assumption)'}
OWN_ALLOC = ('malloc', 'strndup', 'calloc', 'realloc')


def pointee_is_const(t):
    """is the object a parameter of pointer type t points at const-qualified at its top level?
    'const char *' -> yes; 'const char **' -> no (it points at a modifiable pointer); 'char *const *' -> yes"""
    t = t.strip()
    if '*' not in t: return False
    pointee = t[:t.rindex('*')].strip()
    if '*' in pointee: return pointee.endswith('const')
    return 'const' in pointee.split()


def param_types(tu, fname):
    f = tu.functions.get(fname)
    if f is None: return {}
    return {c['name']: c['type']['qualType'] for c in f.get('inner', []) if c.get('kind') == 'ParmVarDecl'}


def run(ck):
    us = [u for u in unitdb.units() if u.group != 'cli']
    cli = [u for u in unitdb.units() if u.group == 'cli']
    if ck.tier == 'thorough' and ck.pid == 'C14':
        # the same facts for the code that only exists under a build option: all three make options on, and -DEAV_EXTRA
        allon = {'RFC6531_FOLLOW_RFC5322': 'ON', 'RFC6531_FOLLOW_RFC20': 'ON', 'LABELS_ALLOW_UNDERSCORE': 'ON'}
        us = us + [u for u in unitdb.units(allon, 'alloptions') if u.group != 'cli'] + [u for u in unitdb.units(None, 'EAV_EXTRA', ('-DEAV_EXTRA',)) if u.group != 'cli']
    irs = unitdb.parallel(unitdb.dump_ir, us + cli)
    tus = unitdb.load_asts(us)
    mods = {u.key: irfacts.Module(p) for u, p in zip(us + cli, irs)}
    r1 = ck.rule('R14.1', 'no library unit defines a mutable global, thread-local or function-local static object', 10)
    r2 = ck.rule('R14.2', 'every store / write-through-callee in a library function targets a local object, memory the function allocated, or the pointee of a non-const pointer parameter', 100)
    r3 = ck.rule('R14.3', 'external callees of the library are on the frozen list of re-entrant functions', 20)
    r4 = ck.rule('R14.4', 'the five utf8_decode_* functions take their state through a utf8_decode_t * parameter', 5)
    live = 0
    for u in us:
        m = mods[u.key]; tu = tus[u.key]
        ck.analysed(units=[u.key])
        for g, info in sorted(m.globals.items()):
            if info['external']: continue
            ok = info['kind'] == 'constant' and not info['tls']
            r1.instance(f'{u.key}:@{g}', ok=ok, wclass='mutable-global', what=f'{u.key} defines the mutable object @{g} ({info["text"][:90]}): shared by all threads using the library')
        for fname, fn in sorted(m.functions.items()):
            ck.analysed(functions=[f'{u.key}:{fname}'])
            ptypes = param_types(tu, fname)
            def judge(bases, what, line):
                bad = []
                for b in bases:
                    if b[0] in ('alloca', 'const', 'uninit'): continue
                    if b[0] == 'call' and (b[1] in OWN_ALLOC or m.returns_fresh(b[1])): continue      # own allocation, directly or through a wrapper of this unit
                    if b[0] == 'deref' and b[1][0] == 'call': continue              # field of an own allocation
                    if b[0] in ('param', 'deref-param'):
                        t = ptypes.get(b[1], '')
                        if t and '*' in t and not pointee_is_const(t): continue
                        bad.append(f'{what} through parameter {b[1]} of type "{t}"'); continue
                    if b[0] == 'deref' and b[1][0] == 'deref-param':
                        t = ptypes.get(b[1][1], '')
                        if t and not pointee_is_const(t): continue      # e.g. eav->result->... : the caller's own object graph
                        bad.append(f'{what} through const parameter {b[1][1]}'); continue
                    if b[0] in ('global', 'deref-global'): bad.append(f'{what} to global @{b[1]}'); continue
                    bad.append(f'{what} to an object the analysis cannot attribute: {b}')
                return bad
            for bases, line, text in m.store_targets(fn):
                bad = judge(bases, 'store', line)
                r2.instance(f'{u.key}:{fname}:{line}' if bad else f'{u.key}:{fname}', ok=not bad, wclass='store-target', what=f'{fname} (line {line}): ' + '; '.join(bad) + f' [{text[:80]}]')
            for callee, tgt, args, line, res in fn.calls:
                if callee is None:
                    # indirect call: only through a function pointer that belongs to the caller's own object (the two
                    # callbacks stored in eav_t) or was handed in as a parameter
                    fb = m.bases(fn, tgt)
                    ok = bool(fb) and all(b[0] in ('param', 'deref-param') or (b[0] == 'deref' and b[1][0] in ('param', 'deref-param')) for b in fb)
                    r3.instance(f'{u.key}:{fname}:indirect@{line}' if not ok else f'{u.key}:{fname}', ok=ok, wclass='indirect-call', what=f'{fname} makes an indirect call at line {line}')
                    continue
                if callee in m.functions or any(callee in mm.functions for k, mm in mods.items() if not k.startswith('bin/')): continue
                ok = callee in ALLOWED
                r3.instance(f'{u.key}:{fname}:{callee}' if not ok else f'{u.key}:{fname}', ok=ok, wclass='external-callee:' + callee,
                            what=f'{fname} calls {callee} (line {line}), which is not on the list of re-entrant externals the library is known to use')
                for idx in ALLOWED.get(callee, []):
                    if idx < len(args):
                        bad = judge(m.bases(fn, args[idx]), f'write by {callee}', line)
                        r2.instance(f'{u.key}:{fname}:{line}' if bad else f'{u.key}:{fname}', ok=not bad, wclass='callee-write', what=f'{fname} (line {line}): ' + '; '.join(bad))
        if u.rel == 'src/utf8_decode.c':
            for fname in ('utf8_decode_init', 'utf8_decode_next', 'utf8_decode_at_byte', 'utf8_decode_at_character'):
                pt = param_types(tu, fname)
                r4.instance(f'{u.key}:{fname}', ok=any('utf8_decode_t *' in t for t in pt.values()), wclass='decoder-state', what=f'{fname} does not take a utf8_decode_t * (parameters: {pt})')
            for fname in ('get', 'cont'):
                if fname in tu.functions:
                    pt = param_types(tu, fname)
                    r4.instance(f'{u.key}:{fname}', ok=any('utf8_decode_t *' in t for t in pt.values()), wclass='decoder-state', what=f'{fname} does not take a utf8_decode_t *')
    # positive example keeping R14.1 alive: the CLI's own decoder copy keeps its state in statics (out of scope)
    for u in cli:
        m = mods[u.key]
        live += sum(1 for g, i in m.globals.items() if not i['external'] and i['kind'] == 'global')
    if live == 0: raise AnalysisBroken('R14.1 found no mutable global even in bin/ (the CLI decoder keeps statics): the rule may be dead')
    ck.sample({'mutable_globals_in_bin (out of scope, keeps the rule live)': live})
    ck.assume('libidn2 / libidn / idnkit entry points used here are thread-safe as documented; strncasecmp reads the process locale (a concurrent setlocale by the application is the application\'s race)')
    ck.assume('"outcomes equal the sequential ones" follows with C13: each call is a function of its arguments and the caller\'s own object')
    ck.undecided('thread-safety of libc / IDN library internals')
