"""C04 - host names: LDH labels, 63/253, not all-numeric.
is_ascii_domain is decided in three parts that together cover every string:
  O4.1a strings of length <= 3 over the byte classes: whole function evaluated abstractly, compared with the reference;
  O4.1b length pre-checks for n >= 4 as a table over the cells cut by the constants the code compares n with
        (x last byte is '.'), compared with the statement's 253-character rule and root-dot stripping;
  O4.1c the scanning loop as an extracted automaton == label-sequence DFA, for the unstripped (terminator NUL) and the
        stripped (terminator '.') range, all lengths (label_length saturates at 64 after its usage pattern is verified).
R4.3 the 6531 clause: every backend applies is_ascii_domain to the converter output and returns its failure unchanged."""
import itertools
import unitdb, scanex, cfgpaths
from scanex import END
from spec import domain as DS
from report import AnalysisBroken
from astutil import where

LEVEL = 'model_checking'
BACKENDS = ('idn2', 'idn', 'idnkit')


def domain_alphabet(tu, fname='is_ascii_domain'):
    consts, masks = scanex.function_constants([tu.fn(fname)])
    reps, class_of, classes = scanex.byte_classes(consts, masks, DS.PREDICATE_SETS, derived=scanex.derived_ops([tu.fn(fname)]))
    return reps, class_of, classes


def errname(tu, rc):
    if rc == 0: return 'EEAV_NO_ERROR'
    for k, v in tu.enums.items():
        if k.startswith('EEAV_') and v == -rc: return k
    return str(rc)


def scan_machine(tu, term):
    return scanex.ScannerMachine(tu, 'is_ascii_domain', term, counters={'label_length': None}, prologue='decls')


def whole_function(tu, pro, syms):
    """abstract evaluation of the complete function on one fully specified short string"""
    n = len(syms)
    r = pro.run(n, list(syms))
    if r[0] == 'ret': return r[1], r[2]
    eoff = r[1]
    if eoff > 0 or n + eoff < 0: raise AnalysisBroken('is_ascii_domain: end moved outside the string')
    body = list(syms[:n + eoff]); term = syms[n + eoff] if eoff < 0 else 0
    return scanex.run_string(scan_machine(tu, term), body, term)


def run(ck, options=None, variant='', underscore=False, tag=''):
    us = [u for u in unitdb.units(options, variant) if u.group != 'cli']
    tus = unitdb.load_asts([u for u in us if u.rel == 'src/is_ascii_domain.c' or u.rel.endswith('is_utf8_domain.c')])
    key = (variant + ':' if variant else '') + 'src/is_ascii_domain.c'
    tu = tus[key]
    site = 'src/is_ascii_domain.c:is_ascii_domain' + tag
    ck.analysed(units=[key], functions=[site])
    reps, class_of, classes = domain_alphabet(tu)
    pro = scanex.PrologueInterp(tu, 'is_ascii_domain')
    # ---- O4.1a short strings
    ra = ck.rule('O4.1a' + tag, 'every string of length 0-3 over the byte classes: is_ascii_domain (prologue + scan, evaluated abstractly) accepts iff the statement does', 100)
    bad = {}
    count = 0
    for n in range(0, 4):
        for s in itertools.product(reps, repeat=n):
            count += 1
            try:
                rc, node = whole_function(tu, pro, s)
            except scanex.Unsupported as e:
                raise AnalysisBroken(f'is_ascii_domain prologue outside the supported subset: {e}')
            want = DS.valid_domain(list(s), underscore)
            if (rc == 0) != want:
                cls = ('accepts-invalid' if rc == 0 else 'rejects-valid:' + errname(tu, rc)) + ':short'
                bad.setdefault(cls, (s, rc, node))
            else:
                ra.instance(site, ok=True)
    for cls, (s, rc, node) in bad.items():
        ra.instance(site, ok=False, wclass=cls, witness=scanex.show(s), what=f'is_ascii_domain {"accepts" if rc == 0 else "rejects (" + errname(tu, rc) + ")"} {scanex.show(s)!r} (return at {where(node)}); the statement says the opposite')
    # ---- O4.1b length table
    rb = ck.rule('O4.1b' + tag, 'for n >= 4, per length cell x class of the last byte: the prologue rejects only cells without any valid name, hands every other cell to the scan, with exactly one root dot stripped iff the last byte is "." and rejected iff n minus root dot > 253', 10)
    reps_n = {4, 5, 64, 252, 253, 254, 255, 256, 257, 1000, 70000}
    done = set()
    spec = DS.labels_spec(underscore)
    reach = {0: {spec[0]}}                       # label-sequence DFA states reachable by strings of length m (dead ones dropped)
    def reachable(m):
        k = max(reach)
        while k < m:
            nxt = set()
            for st in reach[k]:
                for r in reps:
                    t = spec[1](st, r)
                    if not spec[3](t): nxt.add(t)
            k += 1; reach[k] = nxt
        return reach[m]
    def some_valid(m, last):
        """is there a string of length m >= 1 with last byte class `last` that the label-sequence DFA accepts?"""
        if m < 1 or m > DS.MAX_NAME + 1: return m <= DS.MAX_NAME + 1 and False
        return any(spec[2](spec[1](st, last)) for st in reachable(m - 1))
    def cell_has_valid(n, c):
        """a valid host name of length n whose last byte is in class c exists (root dot and 253 rule included)"""
        if c == 0x2e:
            return n >= 2 and n - 1 <= DS.MAX_NAME and any(spec[2](st) for st in reachable(n - 1))
        return n <= DS.MAX_NAME and some_valid(n, c)
    while True:
        todo = sorted(reps_n - done)
        if not todo: break
        for n in todo:
            done.add(n)
            for c in reps:
                lastdot = c == 0x2e
                try:
                    r = pro.run(n, {n - 1: c})
                except scanex.Unsupported as e:
                    raise AnalysisBroken(f'is_ascii_domain prologue outside the supported subset: {e}')
                want = DS.phase1_spec(n, lastdot)
                ok = True; why = ''
                if r[0] == 'ret':
                    got = ('reject',) if r[1] != 0 else ('accept',)
                    if r[1] == 0: ok = False; why = 'accepted without scanning'
                    elif want[0] != 'reject' and cell_has_valid(n, c): ok = False; why = f'rejected ({errname(tu, r[1])}) before scanning, although valid names of this shape exist'
                else:
                    got = ('scan', r[1] == -1) if r[1] in (0, -1) else ('scan', r[1])
                    if want[0] == 'reject': ok = False; why = 'handed to the scan, which has no total-length rule'
                    elif got != want: ok = False; why = 'wrong number of bytes stripped before the scan'
                rb.instance(f'{site}:n={n},last={scanex.show([c])}' if not ok else site, ok=ok, wclass=f'length-cell:{"reject" if got[0] == "reject" else got}',
                            what=f'length {n}, last byte {scanex.show([c])!r}: code does {got}, statement requires {want}: {why}' + (f' (return at {where(r[2])})' if r[0] == 'ret' else ''),
                            detail={'n': n, 'last': c, 'code': got, 'statement': want})
        for c in list(pro.compared):
            for d in (-1, 0, 1):
                if c + d >= 4: reps_n.add(c + d)
    ck.sample({'length_cells': sorted(done), 'constants_compared_with_n': sorted(pro.compared)})
    # ---- O4.1c scan automaton
    rc_ = ck.rule('O4.1c' + tag, 'L(scan loop of is_ascii_domain) == label-sequence DFA (1-63 LDH bytes, no leading/trailing hyphen, single dots, no empty label, not all-numeric), all lengths', 2)
    spec = DS.labels_spec(underscore)
    for term, tname in ((0x00, 'unstripped (NUL follows)'), (0x2e, 'root dot stripped ("." follows)')):
        found = {}
        m = scan_machine(tu, term)
        d = scanex.DFAMachine('spec', *spec)
        def leaf(results, witness, term=term):
            (rc, node), (src, _) = results
            if (rc == 0) == (src == 0): return
            w = [s for s in witness if s != END]
            if term == 0x00 and w and w[-1] == 0x2e: return       # such a string is never scanned unstripped (n >= 2) / covered by O4.1a (n == 1)
            # the scan is only one half of the function: a witness counts if the prologue really hands this string to the
            # scan with this range (otherwise the prologue's own verdict applies, which O4.1a / O4.1b judge)
            full = list(w) + ([0x2e] if term == 0x2e else [])
            try: pr = pro.run(len(full), full)
            except scanex.Unsupported: pr = None
            if pr is not None and (pr[0] == 'ret' or pr[1] != (-1 if term == 0x2e else 0)): return
            cls = 'accepts-invalid' if rc == 0 else 'rejects-valid:' + errname(tu, rc)
            cur = found.get(cls)
            if cur is None or len(w) < len(cur[0]): found[cls] = (w, rc, node)
        ex = scanex.Explorer([m, d], reps, term)
        ex.run(leaf)
        ck.mc(ex.configs, ex.transitions)
        if not found: rc_.instance(site, ok=True, detail={'terminator': tname, 'configurations': ex.configs, 'transitions': ex.transitions})
        for cls, (w, rc, node) in found.items():
            full = scanex.show(w) + ('.' if term == 0x2e else '')
            rc_.instance(site, ok=False, wclass=cls + (':rootdot' if term == 0x2e else ''), witness=full,
                         what=f'is_ascii_domain {"accepts" if rc == 0 else "rejects (" + errname(tu, rc) + ")"} {full!r} (return at {where(node) if node else "?"}; {tname}); the statement says the opposite')
        ck.sample({'scan': tname, 'byte_classes': len(reps), 'configurations': ex.configs, 'transitions': ex.transitions, 'label_length_saturates_at': m.sat.get('label_length')})
    if tag: return
    # ---- R4.3 the 6531 clause
    r3 = ck.rule('R4.3', 'is_utf8_domain (each backend): after a successful conversion is_ascii_domain is applied to the converter output [out, out+strlen(out)) and a non-zero result is returned unchanged; nothing is returned >= 0 without it', 3)
    for b in BACKENDS:
        k = f'partial/{b}/is_utf8_domain.c'
        if k not in tus: raise AnalysisBroken(f'{k} not analysed')
        ck.analysed(units=[k], functions=[f'{k}:is_utf8_domain'])
        eng, paths = cfgpaths.summarise(tus[k], 'is_utf8_domain')
        why = []
        for p in paths:
            conv = [c for c in p.calls() if c[1] in ('idn2_to_ascii_8z', 'idn2_lookup_ul', 'idna_to_ascii_lz', 'idna_to_ascii_8z', 'idn_res_encodename')]
            ret = p.ret()[1]
            asc = p.calls('is_ascii_domain')
            nonneg = not str(ret).startswith('-')
            if not conv:
                if nonneg: why.append(f'returns {ret} without converting')
                continue
            out = conv_output(conv[-1])          # the conversion whose output is used (a retry makes a second call)
            if asc:
                a = asc[0][2]
                if a[0] != out or a[1] != out_end(p, out) or not [c for c in p.calls('strlen') if c[2] == (out,)]:
                    why.append(f'is_ascii_domain applied to {a}, converter output is {out}')
                if p.passed(f'({asc[0][3]} != EEAV_NO_ERROR)', True) and ret != asc[0][3]:
                    why.append(f'is_ascii_domain failure not returned unchanged (returns {ret})')
            elif nonneg or p.calls('is_tld') or p.calls('is_special_domain'):
                why.append(f'path returns {ret} / classifies without is_ascii_domain on the converter output')
        r3.instance(f'{k}:is_utf8_domain', ok=not why, wclass='pipeline', what='; '.join(sorted(set(why))))
    ck.assume('the domain ends at the string terminator (byte at *end is NUL), as in every call made by the library')
    ck.assume('IDN converters return A-label output (libidn2/libidn/idnkit behaviour is not analysed)')
    ck.undecided('that the IDN library produces the right A-label (C10)')


def out_end(p, out):
    """the rendered end of the converter output: out + strlen(out), with whatever number the strlen call carries"""
    sl = [c for c in p.calls('strlen') if c[2] == (out,)]
    return f'({out} + {sl[0][3]})' if sl else f'({out} + strlen#1)'


def conv_output(call):
    nm, args = call[1], call[2]
    if nm == 'idn_res_encodename': return args[3]
    a = args[1]
    return f'{a[1:]}@{call[3]}' if a.startswith('&') else a
