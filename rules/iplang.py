"""Languages of is_ipv4 and is_ipv6 in the bracket context (range ends at ']'): extracted automata sandwiched between
the lower bound (what the statement says MUST be accepted: RFC 5321 section 4.1.3 grammar, quads of 1-3 digit
octets with non-zero first octet) and the upper bound (what MAY be accepted: RFC 4291 forms, octets 0-255)."""
import unitdb, scanex, forkmap
from scanex import END, Ptr, Byte, BSet, Unsupported, members_of, View
from spec import iplit
from report import AnalysisBroken
from astutil import where, callee_name, strip

BRACKET = 0x5d


def string_arg(n, tu=None):
    n = strip(n)
    while n.get('kind') in ('ImplicitCastExpr', 'CStyleCastExpr', 'ParenExpr'): n = n['inner'][0]
    if n.get('kind') == 'DeclRefExpr' and tu is not None and n['referencedDecl'].get('kind') == 'VarDecl':
        # a file-scope `static const char name[] = "..."`
        d = tu.globals.get(n['referencedDecl']['name'])
        if d is not None and d.get('type', {}).get('qualType', '').startswith('const char'):
            ini = [c for c in d.get('inner', []) if 'Comment' not in c.get('kind', '')]
            if ini:
                n = strip(ini[0])
                while n.get('kind') in ('ImplicitCastExpr', 'CStyleCastExpr', 'ParenExpr'): n = n['inner'][0]
    if n.get('kind') != 'StringLiteral': return None
    import tables
    return tables.c_unescape(n['value'])


class EnterNested(Exception):
    def __init__(s, off): s.off = off


class Span:
    """lazy result of strspn on the cursor: only as many symbols are examined as a comparison needs"""
    def __init__(self, m, off, members): self.m = m; self.off = off; self.members = members; self.known = 0; self.closed = False
    def at_least(self, n):
        while self.known < n and not self.closed:
            e = self.m.view.sym(self.off + self.known)
            if e == END: self.closed = True; break
            b = self.m.symval(e, self.m.view.index(self.off + self.known))
            if not self.m.decide(b, lambda x: x in self.members): self.closed = True; break
            self.known += 1
        return self.known >= n
    def exact(self):
        n = 0
        while self.at_least(n + 1):
            n += 1
            if n > 64: raise Unsupported('unbounded strspn')
        return n
    def cmp(self, op, c):
        if op == '>': return int(self.at_least(c + 1))
        if op == '>=': return int(self.at_least(c))
        if op == '<': return int(not self.at_least(c))
        if op == '<=': return int(not self.at_least(c + 1))
        if op == '==': return int(self.at_least(c) and not self.at_least(c + 1))
        if op == '!=': return int(not (self.at_least(c) and not self.at_least(c + 1)))
        raise Unsupported('span ' + op)


class IPMachine(scanex.ScannerMachine):
    """is_ipv4 / is_ipv6 with models of the two library calls they make:
       strspn(p, "set") on a cursor-relative pointer: counts window symbols that are members of the set (lazily
           refined), stopping at the end of the range, whose terminator byte must not be in the set;
       start[strspn(start, "0.")] (is_ipv4's 0.0.0.0 exemption): non-zero in the bracket context, because the
           terminator ']' is outside "0." - the statement allows either answer for quads with a zero first octet;
       is_ipv4(cursor - k, end) called from is_ipv6: the is_ipv4 scanner is run, from its own source, as a nested
           scan over the same window starting k symbols behind the cursor."""
    def __init__(self, tu, fname, term=BRACKET, name=None):
        counters = {'byte_count': None} if fname == 'is_ipv4' else {}
        super().__init__(tu, fname, term, counters=counters, name=name)
        self.singletons = set(iplit.DIGITS)

    def call(self, n):
        name = callee_name(n)
        args = n['inner'][1:]
        if name == 'strspn':
            p = self.ev(args[0]); lit = string_arg(args[1], self.tu)
            if lit is None: raise Unsupported('strspn with a non-literal set')
            members = frozenset(ord(c) for c in lit)
            if isinstance(p, Ptr) and p.base == 'start' and p.off == 0 and not self.at_start_known_cursor():
                return ('span-from-start', members)
            if not (isinstance(p, Ptr) and p.base == 'cur'): raise Unsupported('strspn on ' + repr(p))
            if self.term in members: raise Unsupported('strspn set contains the terminator byte')
            sp = Span(self, p.off, members); self.last_span = sp
            return sp
        if name == 'is_ipv4' and self.fname != 'is_ipv4':
            raise Unsupported('is_ipv4 called from is_ipv6 outside a return statement')
        return super().call(n)           # constant-string membership tests, helpers of the same unit

    def at_start_known_cursor(self):
        return False

    # ---- tail call  `return is_ipv4(cursor - k, end)`: the machine continues as the is_ipv4 scanner
    def ex(self, n):
        if n['kind'] == 'ReturnStmt' and self.fname != 'is_ipv4':
            e = strip(n['inner'][0])
            if e.get('kind') == 'CallExpr' and callee_name(e) == 'is_ipv4':
                p = self.ev(e['inner'][1]); q = self.ev(e['inner'][2])
                if not (isinstance(p, Ptr) and p.base == 'cur'): raise Unsupported('nested is_ipv4 on ' + repr(p))
                if not (isinstance(q, Ptr) and q.base == 'end' and q.off == 0): raise Unsupported('nested is_ipv4 with a different end')
                x = EnterNested(p.off); x.node = n
                raise x
        return super().ex(n)

    def key(self):
        for k, v in list(self.env.items()):
            if isinstance(v, Span): self.env[k] = v.exact()
        return super().key()

    def step(self, key, view):
        """`return is_ipv4(cursor - k, end)` ends the structural scan with the verdict ('tail', k): the rest of the
        input, starting k symbols behind the cursor, is judged by is_ipv4 (whose language is decided separately)"""
        try:
            return super().step(key, view)
        except EnterNested as e:
            if e.off > 0: raise Unsupported('is_ipv4 called on a range starting ahead of the cursor')
            return ('ret', ('tail', -e.off), e.node)

    def binop(self, op, a, b):
        if isinstance(a, Span) or isinstance(b, Span):
            inv = {'==': '==', '!=': '!=', '<': '>', '<=': '>=', '>': '<', '>=': '<='}
            if isinstance(a, Span) and isinstance(b, int) and not isinstance(b, (Byte,)) and op in inv: return a.cmp(op, b)
            if isinstance(b, Span) and isinstance(a, int) and not isinstance(a, (Byte,)) and op in inv: return b.cmp(inv[op], a)
            a = a.exact() if isinstance(a, Span) else a
            b = b.exact() if isinstance(b, Span) else b
        return super().binop(op, a, b)

    def truth(self, v):
        if isinstance(v, Span): return v.at_least(1)
        return super().truth(v)

    def subscript_hook(self, n, base, idx):
        if isinstance(base, Ptr) and base.base == 'start' and base.off == 0 and isinstance(idx, tuple) and idx and idx[0] == 'span-from-start':
            if self.term in idx[1] or self.term == 0: raise Unsupported('start[strspn(start, set)] outside the bracket context')
            return 1          # some byte outside the set precedes the NUL: at the latest the terminator ']'
        return super().subscript_hook(n, base, idx)


def ip_alphabet(tu, fnames):
    consts, masks = scanex.function_constants([tu.fn(f) for f in fnames])
    # characters of string literals are set members, not individual comparisons
    consts = {c for c in consts if not (0x30 <= c <= 0x39 or chr(c) in 'abcdefABCDEF') or c == 0x30}
    der = [d for d in scanex.derived_ops([tu.fn(f) for f in fnames]) if not (d[0] == '-' and d[1] == 0x30)]     # digits are singletons already
    reps, class_of, classes = scanex.byte_classes(consts, masks, iplit.PREDICATE_SETS, derived=der)
    return [r for r in reps if r != BRACKET and r != 0], classes


def sandwich_task(tu, fname, lower, symbols, lb):
    def task():
        found = {}
        m = IPMachine(tu, fname)
        d = scanex.DFAMachine('spec', *(iplit.v4_dfa(lower) if fname == 'is_ipv4' else iplit.v6_struct(lower)))
        def leaf(results, witness):
            (rc, node), (src, _) = results
            w = [s for s in witness if s != END]
            if rc == ('tail', 0): rc = 0        # a tail that starts with '.' is rejected by is_ipv4 (O5.5b: a quad starts with a digit)
            cls = None
            if lower:
                if src == 0 and rc != 1: cls = 'rejects-required'
                elif isinstance(src, tuple) and src[0] == 'tail' and rc != src: cls = 'quad-tail-not-delegated'
            else:
                if rc == 1 and src != 0: cls = 'accepts-forbidden'
                elif isinstance(rc, tuple) and rc != src: cls = 'quad-tail-misplaced'
            if cls is None: return
            if cls not in found or len(w) < len(found[cls][0]): found[cls] = (w, where(node) if node else '?', str(rc), str(src))
        ex = scanex.Explorer([m, d], symbols, BRACKET, lookbehind=lb)
        ex.run(leaf)
        return ex.configs, ex.transitions, found
    return task


def run(ck):
    us = [u for u in unitdb.units() if u.rel == 'src/is_ipv4_ipv6.c']
    if not us: raise AnalysisBroken('src/is_ipv4_ipv6.c is not built')
    tu = unitdb.load_asts(us)['src/is_ipv4_ipv6.c']
    ck.analysed(units=['src/is_ipv4_ipv6.c'], functions=['src/is_ipv4_ipv6.c:is_ipv4', 'src/is_ipv4_ipv6.c:is_ipv6', 'src/is_ipv4_ipv6.c:is_ipaddr'])
    symbols, classes = ip_alphabet(tu, ['is_ipv4', 'is_ipv6'])
    jobs = [sandwich_task(tu, 'is_ipv4', True, symbols, 1), sandwich_task(tu, 'is_ipv4', False, symbols, 1),
            sandwich_task(tu, 'is_ipv6', True, symbols, 1), sandwich_task(tu, 'is_ipv6', False, symbols, 1)]
    res = forkmap.forkmap(jobs)
    rules = [('O5.5a', 'is_ipv4', 'every dotted quad of 1-3 digit octets <= 255 with non-zero first octet is accepted (bracket context, all lengths)'),
             ('O5.5b', 'is_ipv4', 'is_ipv4 accepts only four decimal octets 0-255 separated by single dots (bracket context, all lengths)'),
             ('O5.7a', 'is_ipv6', 'every RFC 5321 IPv6-full / IPv6-comp address is accepted, and for IPv6v4-full / IPv6v4-comp the dotted-quad tail is handed, from the start of its first octet, to is_ipv4 (O5.5a then accepts it)'),
             ('O5.7b', 'is_ipv6', 'is_ipv6 accepts only RFC 4291 text forms: 8 groups, or fewer with one "::"; groups of 1-4 hex digits; a dotted-quad tail only after 6 groups (at most 5 with "::") and only through is_ipv4 (O5.5b bounds it)')]
    for (rid, fname, text), (cfg, tr, found) in zip(rules, res):
        r = ck.rule(rid, text, 1)
        ck.mc(cfg, tr)
        site = f'src/is_ipv4_ipv6.c:{fname}'
        if not found: r.instance(site, ok=True, detail={'configurations': cfg, 'transitions': tr})
        for cls, (w, at, rc, src) in sorted(found.items()):
            what = {'rejects-required': 'rejects an address the statement requires to be accepted',
                    'accepts-forbidden': 'accepts an address the statement does not allow',
                    'quad-tail-not-delegated': 'does not hand the dotted-quad tail (from the start of its first octet) to the IPv4 rules where the grammar has one',
                    'quad-tail-misplaced': 'hands a dotted-quad tail to the IPv4 rules where RFC 4291 has none, or from the wrong position'}[cls]
            r.instance(site, ok=False, wclass=cls, witness=scanex.show(w),
                       what=f'{fname} on {scanex.show(w)!r}: {what} (code verdict {rc} at {at}; statement verdict {src})')
        ck.sample({'rule': rid, 'symbols': len(symbols), 'configurations': cfg, 'transitions': tr})
    # is_ipaddr dispatch
    import cfgpaths, re
    r = ck.rule('R5.8', 'is_ipaddr dispatches on the presence of ":" to is_ipv6, else is_ipv4, with its own (start, end) and returns the result unchanged', 1)
    eng, paths = cfgpaths.summarise(tu, 'is_ipaddr')
    why = []
    seen = set()
    for p in paths:
        sc = [c for c in p.calls() if c[1] in ('strchr', 'memchr') and c[2][:2] == ('start', "':'")]
        if len(sc) != 1:
            # a guard that rejects null pointers before anything is read is not part of the dispatch
            nullguard = any(e[0] == 'cond' and re.fullmatch(r'\(?!?(start|end)( == NULL)?\)?', e[1]) and (e[2] if '==' in e[1] or e[1].startswith('!') or e[1].startswith('(!') else not e[2]) for e in p.events)
            if nullguard and str(p.ret()[1]) in ('0', 'NO') and not [c for c in p.calls() if c[1] in ('is_ipv4', 'is_ipv6')]: continue
            why.append('no colon search on start'); continue
        v = [c for c in p.calls() if c[1] in ('is_ipv4', 'is_ipv6')]
        s0 = sc[0][3]
        found = p.passed(s0, True) or p.passed(f'({s0} != NULL)', True) or p.passed(f'({s0} == NULL)', False)
        absent = p.passed(s0, False) or p.passed(f'({s0} != NULL)', False) or p.passed(f'({s0} == NULL)', True)
        if found == absent: why.append('the result of the colon search is not tested'); continue
        want = 'is_ipv6' if found else 'is_ipv4'; seen.add(want)
        if len(v) != 1 or v[0][1] != want or v[0][2] != ('start', 'end') or p.ret()[1] != v[0][3]: why.append(f'colon {"found" if want == "is_ipv6" else "absent"}: calls {[c[1:3] for c in v]}, returns {p.ret()[1]}')
    if seen != {'is_ipv4', 'is_ipv6'} and not why: why.append(f'dispatch reaches only {sorted(seen)}')
    r.instance('src/is_ipv4_ipv6.c:is_ipaddr', ok=not why, wclass='dispatch', what='; '.join(why))
    ck.assume('literals are validated in the bracket context (the range ends at "]", which every strspn set excludes); direct API calls on other ranges are not covered')
    ck.assume('quads with a zero first octet may be accepted or rejected (the statement bounds them from neither side)')
