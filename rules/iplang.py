def run(ck):
    pass
