"""C12 - modes differ only where the RFCs differ.
Products of *extracted* automata (no specification involved): O12.1 the four local scanners return the same code
on every ASCII string without DQUOTE and backslash; O12.2 L(5321) is a subset of L(822);
R12.3 the three ASCII e-mail functions are the same function up to the local-part callee, and is_6531_email
differs from them only in the documented host-name call."""
import scanex, forkmap
from scanex import END
from rules import lp, emailfn
from rules.c03 import machine_6531, check_na_premise
from report import AnalysisBroken
from astutil import where

LEVEL = 'model_checking'


def run(ck):
    tus = lp.local_units()
    fns = {m: (tus[f'src/is_{m}_local.c'], f'is_{m}_local') for m in ('822', '5321', '5322', '6531')}
    ck.analysed(units=[f'src/is_{m}_local.c' for m in fns], functions=[f'src/is_{m}_local.c:is_{m}_local' for m in fns])
    check_na_premise(ck, fns['6531'][0], 'is_6531_local', 'src/is_6531_local.c')
    symbols, class_of, classes = lp.alphabet([t.fn(f) for t, f in fns.values()])
    ascii_syms = [s for s in symbols if s < 0x80]
    noq = [s for s in ascii_syms if s not in (0x22, 0x5c)]

    def machines(term, which):
        out = []
        for m in which:
            tu, f = fns[m]
            out.append(machine_6531(tu, term) if m == '6531' else scanex.ScannerMachine(tu, f, term))
        return out

    order = ('822', '5321', '5322', '6531')
    def task_same(term):
        def task():
            found = {}
            ms = machines(term, order)
            def leaf(results, witness):
                rcs = [r[0] for r in results]
                if len(set(rcs)) == 1: return
                w = [s for s in witness if s != END]
                cls = 'codes-differ:' + '/'.join(lp.errname(fns['822'][0], rc) for rc in rcs)
                if cls not in found or len(w) < len(found[cls][0]): found[cls] = (w, [where(r[1]) if r[1] else None for r in results])
            ex = scanex.Explorer(ms, noq, term); ex.run(leaf)
            return ex.configs, ex.transitions, found
        return task
    def task_incl(term):
        def task():
            found = {}
            ms = machines(term, ('5321', '822'))
            def leaf(results, witness):
                if results[0][0] == 0 and results[1][0] != 0:
                    w = [s for s in witness if s != END]
                    cls = 'accepted-5321-rejected-822:' + lp.errname(fns['822'][0], results[1][0])
                    if cls not in found or len(w) < len(found[cls][0]): found[cls] = (w, [where(results[1][1])])
            ex = scanex.Explorer(ms, symbols, term); ex.run(leaf)
            return ex.configs, ex.transitions, found
        return task
    def task_pair_codes(term):
        def task():
            found = {}
            ms = machines(term, ('5321', '6531'))
            def leaf(results, witness):
                if results[0][0] == results[1][0]: return
                w = [s for s in witness if s != END]
                cls = 'codes-differ-5321-6531:' + '/'.join(lp.errname(fns['822'][0], r[0]) for r in results)
                if cls not in found or len(w) < len(found[cls][0]): found[cls] = (w, [where(r[1]) if r[1] else None for r in results])
            ex = scanex.Explorer(ms, ascii_syms, term); ex.run(leaf)
            return ex.configs, ex.transitions, found
        return task
    extra = [task_pair_codes(0x40), task_pair_codes(0x00)] if ck.tier == 'thorough' else []
    res = forkmap.forkmap([task_same(0x40), task_same(0x00), task_incl(0x40), task_incl(0x00)] + extra)
    def merge(rs):
        found = {}
        for r in rs:
            for cls, f in r[2].items():
                if cls not in found or len(f[0]) < len(found[cls][0]): found[cls] = f
        return sum(r[0] for r in rs), sum(r[1] for r in rs), found
    # ---- O12.1
    r1 = ck.rule('O12.1', 'is_822_local, is_5321_local, is_5322_local, is_6531_local return the same code on every ASCII string without DQUOTE and backslash (all lengths)', 1)
    c, t, found = merge(res[:2]); ck.mc(c, t)
    if not found: r1.instance('src/is_*_local.c', ok=True, detail={'configurations': c, 'transitions': t})
    for cls, (w, ats) in sorted(found.items()):
        r1.instance('src/is_*_local.c', ok=False, wclass=cls, witness=scanex.show(w),
                    what=f'on {scanex.show(w)!r} the modes 822/5321/5322/6531 return {cls.split(":", 1)[1]} (returns at {ats})')
    ck.sample({'rule': 'O12.1', 'symbols': len(noq), 'configurations': c, 'transitions': t})
    # ---- O12.2
    r2 = ck.rule('O12.2', 'every local part accepted by is_5321_local is accepted by is_822_local (all bytes 0x01-0xFF, all lengths)', 1)
    c, t, found = merge(res[2:]); ck.mc(c, t)
    if not found: r2.instance('src/is_5321_local.c~src/is_822_local.c', ok=True, detail={'configurations': c, 'transitions': t})
    for cls, (w, ats) in sorted(found.items()):
        r2.instance('src/is_5321_local.c~src/is_822_local.c', ok=False, wclass=cls, witness=scanex.show(w),
                    what=f'{scanex.show(w)!r} is accepted by is_5321_local but is_822_local returns {cls.split(":")[1]} at {ats[0]}')
    ck.sample({'rule': 'O12.2', 'symbols': len(symbols), 'configurations': c, 'transitions': t})
    if ck.tier == 'thorough':
        r3b = ck.rule('O12.3', '(thorough) modes 5321 and 6531 return the same code on every pure-ASCII local part, quotes and escapes included', 1)
        c, t, found = merge(res[4:6]); ck.mc(c, t)
        if not found: r3b.instance('src/is_5321_local.c~src/is_6531_local.c', ok=True, detail={'configurations': c, 'transitions': t})
        for cls, (w, ats) in sorted(found.items()):
            r3b.instance('src/is_5321_local.c~src/is_6531_local.c', ok=False, wclass=cls, witness=scanex.show(w), what=f'on the ASCII local part {scanex.show(w)!r} modes 5321 / 6531 return {cls.split(":", 1)[1]} (returns at {ats})')
    # ---- R12.3
    twin_agreement(ck, 'R12.3')
    ck.assume('mode 6531 may report an IDN-library error for the domain instead (structural exemption: C10 R10.2)')
    ck.assume('the byte at *end of the local part is "@" or NUL')


def twin_agreement(ck, rid):
    r3 = ck.rule(rid, 'path summaries of is_822_email / is_5321_email / is_5322_email are equal up to the local-part callee; is_6531_email (each backend) equals them outside the host-name branch', 5)
    etus = emailfn.load()
    sums = emailfn.summaries(etus)
    ck.analysed(units=sorted(sums), functions=[f'{k}:email' for k in sums])
    ref_key = emailfn.ASCII['822']
    ren = lambda mode: {f'is_{mode}_local': 'is_LOCAL', f'/repo/src/is_{mode}_email.c': 'FILE'}
    def nset(key, mode, filt=None):
        eng, paths = sums[key]
        return {emailfn.normalise(p, ren(mode)) for p in paths if filt is None or filt(p)}
    ref = nset(ref_key, '822')
    for mode in ('5321', '5322'):
        key = emailfn.ASCII[mode]
        got = nset(key, mode)
        diff = sorted(got ^ ref)
        r3.instance(f'{key}~{ref_key}', ok=not diff, wclass='ascii-twin', detail={'only_in_one': [' | '.join(d)[-600:] for d in diff[:2]]},
                    what=f'is_{mode}_email and is_822_email differ in more than the local-part callee ({len(diff)} path(s) differ); e.g. ...{" | ".join(diff[0])[-300:] if diff else ""}')
    nohost = lambda p: emailfn.domain_branch(p) != 'host'
    strip_asserts = lambda s: {tuple(x for x in t) for t in s}
    ref_nh = nset(ref_key, '822', nohost)
    for b in emailfn.BACKENDS:
        key = f'partial/{b}/is_6531_email.c'
        r6 = {f'is_6531_local': 'is_LOCAL', f'/repo/partial/{b}/is_6531_email.c': 'FILE'}
        eng, paths = sums[key]
        got = {emailfn.normalise(p, r6) for p in paths if nohost(p)}
        ref_b = ref_nh
        if b == 'idnkit':
            # documented difference: idn_rc is initialised with idn_success (= 0, checked) instead of the literal 0
            got = {tuple(x.replace('idn_success', '0') for x in t) for t in got}
            ref_b = {tuple(_merge_idnkit_init(t)) for t in ref_nh}
            got = {tuple(_merge_idnkit_init(t)) for t in got}
        diff = sorted(got ^ ref_b)
        r3.instance(f'{key}~{ref_key}', ok=not diff, wclass='utf8-twin', detail={'only_in_one': [' | '.join(d)[-600:] for d in diff[:2]]},
                    what=f'{key}: outside the host-name branch is_6531_email differs from is_822_email ({len(diff)} path(s)); e.g. ...{" | ".join(diff[0])[-300:] if diff else ""}')


def _merge_idnkit_init(t):
    """INIT_EAV_RESULT_T has two spellings: `x->rc = x->idn_rc = 0` and `x->rc = 0; x->idn_rc = idn_success`;
    compare them as the set of the two zero-initialisations"""
    out = []; init = []
    for x in t:
        if x in ('malloc@1->idn_rc := 0', 'malloc@1->rc := 0'): init.append(x)
        else: out.append(x)
    return sorted(init) + out
