"""C18 - the IDN backend changes no decision and leaks no resource (the repository's side).
All three partial/<backend> source sets are parsed (libidn and idnkit against declaration-only stub headers).
R18.1 sibling agreement of the entry points under the backend vocabulary; R18.2 resource typestate over every legal
call history (explicit exploration of the abstract object state with the path summaries as transitions);
R18.3 the Makefile selects exactly one source set with the matching -DHAVE_* flag."""
import re
import unitdb, cfgpaths
from rules import eavobj, emailfn
from rules.eavobj import BACKENDS, STRERROR, SUCCESS
from rules.c13 import setup_paths
from rules.c10 import trace
from rules.c04 import conv_output, out_end
from report import AnalysisBroken

LEVEL = 'other'
VOCAB = {'idn2': {'idn2_strerror': 'STRERROR', 'IDN2_OK': 'IDN_SUCCESS'},
         'idn': {'idna_strerror': 'STRERROR', 'IDNA_SUCCESS': 'IDN_SUCCESS'},
         'idnkit': {'idn_result_tostring': 'STRERROR', 'idn_success': 'IDN_SUCCESS'}}
IDNKIT_ONLY = re.compile(r'idn_resconf_|eav->idn\b|eav->actions|eav->initialized')


def canon(p, b, drop_resource=True):
    out = []
    for t in emailfn.normalise(p):
        for k, v in VOCAB[b].items(): t = t.replace(k, v)
        t = t.replace('(eav->idn, eav->actions, ', '(').replace('(ctx, actions, ', '(')
        if drop_resource and IDNKIT_ONLY.search(t): continue
        if t in ('eav', '!eav', '(eav == NULL)', '!(eav == NULL)', '(eav != NULL)', '!(eav != NULL)'): continue     # NULL guards on the object (the resolver release has one; any entry point may)
        out.append(t)
    return tuple(out)


def run(ck):
    tus = eavobj.load()
    r1 = ck.rule('R18.1', 'the entry points of the three backends have the same path summaries under the backend vocabulary (strerror / success constant / converter, idnkit context arguments and resolver bookkeeping set aside)', 8)
    ref = 'idn2'
    for fn in ('eav_is_email', 'eav_init', 'eav_free'):
        sets = {}
        for b in BACKENDS:
            key = f'partial/{b}/eav.c'
            eng, paths = cfgpaths.summarise(tus[key], fn)
            sets[b] = {canon(p, b) for p in paths}
            ck.analysed(units=[key], functions=[f'{key}:{fn}'])
        for b in BACKENDS:
            if b == ref: continue
            d1 = sorted(sets[b] - sets[ref]); d2 = sorted(sets[ref] - sets[b])
            r1.instance(f'partial/{b}/eav.c:{fn}~{ref}', ok=not d1 and not d2, wclass='sibling-differs', detail={'only_here': [' | '.join(x)[-500:] for x in d1[:2]], 'only_in_idn2': [' | '.join(x)[-500:] for x in d2[:2]]},
                        what=f'{fn} of the {b} backend differs from the idn2 backend beyond the backend vocabulary ({len(d1)} / {len(d2)} paths differ); e.g. ...{" | ".join((d1 or d2)[0])[-260:] if (d1 or d2) else ""}')
    # eav_setup: compare the projections on mode-selection effects
    def setup_effects(b):
        out = set()
        for p in setup_paths(tus[f'partial/{b}/eav.c']):
            arm = [e[1] for e in p.events if e[0] == 'cond' and e[1].startswith('eav->rfc in [')][0]
            eff = tuple(sorted((e[1], e[2]) for e in p.sets() if e[1] in ('eav->utf8', 'eav->utf8_cb', 'eav->ascii_cb', 'eav->errcode')))
            rv = p.ret()[1]
            if b == 'idnkit' and rv == '-EEAV_IDN_ERROR': continue          # resolver failure: no counterpart in the other backends
            out.add((arm, eff, rv))
        return out
    se = {b: setup_effects(b) for b in BACKENDS}
    for b in BACKENDS:
        if b == ref: continue
        r1.instance(f'partial/{b}/eav.c:eav_setup~{ref}', ok=se[b] == se[ref], wclass='sibling-differs', detail={'here': sorted(map(str, se[b] - se[ref])), 'idn2': sorted(map(str, se[ref] - se[b]))},
                    what=f'eav_setup of the {b} backend selects modes differently from the idn2 backend: {sorted(map(str, se[b] ^ se[ref]))[:3]}')
    # is_utf8_domain: pipeline traces pairwise equal
    tr = {}
    for b in BACKENDS:
        k = f'partial/{b}/is_utf8_domain.c'
        eng, paths = cfgpaths.summarise(tus[k], 'is_utf8_domain')
        s = set()
        for p in paths:
            conv = [c for c in p.calls() if c[1] in eavobj.CONVERTERS]
            a = p.calls('is_ascii_domain')
            if not conv or not a: s.add(('early', p.ret()[1])); continue
            out = conv_output(conv[-1])          # the conversion whose output is used (a retry makes a second call)
            s.add((trace(p, out, out_end(p, out), p.events.index(a[0]), p.ret()[1]), ('conversions', len(conv))))
        tr[b] = s
        ck.analysed(units=[k], functions=[f'{k}:is_utf8_domain'])
    for b in BACKENDS:
        if b == ref: continue
        r1.instance(f'partial/{b}/is_utf8_domain.c~{ref}', ok=tr[b] == tr[ref], wclass='sibling-differs', what=f'is_utf8_domain of the {b} backend maps outcomes differently: {sorted(map(str, tr[b] ^ tr[ref]))[:2]}')
    # is_6531_email siblings
    etus = emailfn.load(); sums = emailfn.summaries(etus)
    e6 = {}
    for b in BACKENDS:
        eng, paths = sums[f'partial/{b}/is_6531_email.c']
        e6[b] = {tuple(x.replace('IDN_SUCCESS', '0').replace(f'/repo/partial/{b}/', 'FILE/') for x in canon(p, b)) for p in paths}
        e6[b] = {tuple(sorted(x for x in t if x in ('malloc@1->idn_rc := 0', 'malloc@1->rc := 0')) + [x for x in t if x not in ('malloc@1->idn_rc := 0', 'malloc@1->rc := 0')]) for t in e6[b]}
    for b in BACKENDS:
        if b == ref: continue
        d = sorted(e6[b] ^ e6[ref])
        r1.instance(f'partial/{b}/is_6531_email.c~{ref}', ok=not d, wclass='sibling-differs', what=f'is_6531_email of the {b} backend differs from idn2: ...{" | ".join(d[0])[-260:] if d else ""}')
    # ---- R18.2 typestate over all legal histories  init . (setup | is_email)* . free
    r2 = ck.rule('R18.2', 'backend resource typestate over every history init.(setup|is_email)*.free: created only when absent, destroyed only when present and never by a rejected setup, handed to the validator only while live, the initialized flag always equals the truth, and eav_free leaves nothing behind', 3)
    for b in BACKENDS:
        key = f'partial/{b}/eav.c'; tu = tus[key]
        ops = {'eav_setup': setup_paths(tu), 'eav_is_email': cfgpaths.summarise(tu, 'eav_is_email')[1], 'eav_free': cfgpaths.summarise(tu, 'eav_free')[1]}
        why = []; seen = set()
        eng, ip = cfgpaths.summarise(tu, 'eav_init')
        u0 = False
        for p in ip:
            s = p.last_set('eav->initialized')
            if s is None or s[2] != '0': why.append('eav_init does not clear initialized')
            u = p.last_set('eav->utf8')
            if u is not None and u[2] not in ('0', 'false'): u0 = True
        work = [(False, False, u0)]                              # (flag, live, utf8 mode) after eav_init
        def apply(p, flag, live, utf8, op):
            """-> (flag', live', utf8', problems) or None if the path's tests on the state contradict it"""
            probs = []
            live0 = live; created_here = False
            for e in p.events:
                if e[0] == 'cond' and e[1] == 'eav':
                    if not e[2]: return None                       # the object pointer is never NULL in a legal history
                elif e[0] == 'cond' and e[1] == 'eav->initialized':
                    if e[2] != flag: return None
                elif e[0] == 'cond' and 'eav->initialized' in e[1]:
                    return ('?', '?', '?', [f'unrecognised test on initialized: {e[1]}'])
                elif e[0] == 'cond' and e[1] == 'eav->utf8':
                    if e[2] != utf8: return None
                elif e[0] == 'call' and e[1] == 'idn_resconf_create':
                    nxt = [x for x in p.events[p.events.index(e):] if x[0] == 'cond' and e[3] in x[1]]
                    ok = nxt and ((nxt[0][1] == f'({e[3]} != idn_success)' and nxt[0][2] is False) or (nxt[0][1] == f'({e[3]} == idn_success)' and nxt[0][2] is True))
                    if ok:
                        if live: probs.append('resolver created while one is live (leak)')
                        live = True; created_here = True
                elif e[0] == 'call' and e[1] == 'idn_resconf_destroy':
                    if not live: probs.append('resolver destroyed while none is live')
                    if op == 'eav_setup' and live0 and not created_here and p.ret() and p.ret()[1] != 'EEAV_NO_ERROR':
                        probs.append(f'a rejected eav_setup (returns {p.ret()[1]}) releases the resolver of the mode that stays in force')
                    live = False
                elif e[0] == 'call' and any(a == 'eav->idn' for a in e[2]):
                    if not live: probs.append(f'{e[1]} is handed eav->idn while no resolver is live (released or never created)')
                elif e[0] == 'set' and e[1] == 'eav->initialized':
                    flag = e[2] == '1'
                elif e[0] == 'set' and e[1] == 'eav->utf8':
                    utf8 = e[2] not in ('0', 'false')
            return (flag, live, utf8, probs)
        nstates = 0
        while work:
            st = work.pop()
            if st in seen: continue
            seen.add(st); nstates += 1
            flag, live, utf8 = st
            for op in ('eav_setup', 'eav_is_email'):
                for p in ops[op]:
                    if p.events and p.events[-1][0] == 'abort': continue
                    r = apply(p, flag, live, utf8, op)
                    if r is None: continue
                    f2, l2, u2, probs = r
                    why += [f'{op} from (initialized={flag}, live={live}, utf8={utf8}): {x}' for x in probs]
                    if f2 == '?': continue
                    if b == 'idnkit' and f2 != l2: why.append(f'{op} from (initialized={flag}, live={live}) ends with initialized={f2} but resolver live={l2}')
                    work.append((f2, l2, u2))
            for p in ops['eav_free']:
                r = apply(p, flag, live, utf8, 'eav_free')
                if r is None: continue
                f2, l2, u2, probs = r
                why += [f'eav_free from (initialized={flag}, live={live}, utf8={utf8}): {x}' for x in probs]
                if l2: why.append(f'eav_free from (initialized={flag}, live={live}) leaves the resolver live (leak)')
        r2.instance(f'{key}:typestate', ok=not why, wclass='typestate', what='; '.join(sorted(set(why))[:4]), detail={'abstract_states': sorted(map(str, seen))})
        ck.sample({'backend': b, 'abstract_states_reached': sorted(map(str, seen))})
    # ---- R18.3
    r3 = ck.rule('R18.3', 'FORCE_IDN=<backend> compiles exactly the three files of partial/<backend>/ with the matching -DHAVE_* flag (and no other backend flag)', 3)
    have = {'idn2': '-DHAVE_LIBIDN2', 'idn': '-DHAVE_LIBIDN', 'idnkit': '-DHAVE_IDNKIT'}
    for b in BACKENDS:
        lines = unitdb.parse_compile_lines(unitdb.make_dry_run(None, extra=[f'FORCE_IDN={b}']))
        part = sorted(x for c, a in lines for x in a if x.endswith('.c') and x.startswith('partial/'))
        want = sorted(f'partial/{b}/{f}' for f in ('eav.c', 'is_6531_email.c', 'is_utf8_domain.c'))
        flags_ok = all((have[b] in a) and not any(h in a for k, h in have.items() if k != b) for c, a in lines)
        r3.instance(f'Makefile:FORCE_IDN={b}', ok=(part == want and flags_ok), wclass='backend-selection', what=f'FORCE_IDN={b} compiles {part} with consistent {have[b]}: {flags_ok}')
    ck.assume('the three libraries\' conversions are equivalent (the statement\'s own hypothesis); libidn and idnkit are not installed, their sources are parsed against declaration-only stubs and never compiled')
    ck.undecided('behaviour of the IDN libraries themselves')
