"""C01 - address decision: split at the last '@', local part 1-64 octets, both halves valid.
Structural part (the per-part languages are C02-C05): mode wiring in eav_setup / eav_is_email, mode <-> local-part
function, the split and its bounds on every path, and agreement of the four e-mail functions."""
import re
import unitdb, cfgpaths
from rules import emailfn, shared
from rules.c12 import twin_agreement
from report import AnalysisBroken
from astutil import where

LEVEL = 'other'
BACKENDS = ('idn2', 'idn', 'idnkit')
MODES = {'EAV_RFC_822': '822', 'EAV_RFC_5321': '5321', 'EAV_RFC_5322': '5322', 'EAV_RFC_6531': '6531'}


def run(ck):
    us = [u for u in unitdb.units() if u.group != 'cli']
    eav = unitdb.load_asts([u for u in us if u.rel.endswith('/eav.c') and u.rel.startswith('partial/')])
    r1 = ck.rule('R1.1', 'eav_setup maps each EAV_RFC enumerator to its own callback (utf8 flag consistent), default assigns nothing; eav_is_email calls exactly the callback selected by utf8 with (email, length, tld_check) and stores the result', 18)
    for b in BACKENDS:
        key = f'partial/{b}/eav.c'
        tu = eav[key]
        ck.analysed(units=[key], functions=[f'{key}:eav_setup', f'{key}:eav_is_email'])
        from rules.c13 import setup_paths
        paths = setup_paths(tu)
        enumerators = tu.enum_decls.get('EAV_RFC')
        if not enumerators: raise AnalysisBroken('enum EAV_RFC not found')
        arms = {}
        for p in paths:
            a = [e for e in p.events if e[0] == 'cond' and e[1].startswith('eav->rfc in [')]
            if len(a) != 1: raise AnalysisBroken(f'{key}:eav_setup: path without exactly one switch arm on eav->rfc')
            for nm in a[0][1][len('eav->rfc in ['):-1].split(', '): arms.setdefault(nm, []).append(p)
        for en in enumerators:
            site = f'{key}:eav_setup:case {en}'
            mode = MODES.get(en)
            ps = arms.get(en, [])
            if mode is None or not ps:
                r1.instance(site, ok=False, wclass='arm-missing', what=f'EAV_RFC enumerator {en} has no arm of its own in eav_setup'); continue
            why = []
            for p in ps:
                cb_sets = {e[1]: e[2] for e in p.sets() if e[1] in ('eav->ascii_cb', 'eav->utf8_cb')}
                u = p.last_set('eav->utf8')
                if mode == '6531' and p.ret()[1] not in ('EEAV_NO_ERROR', '0'):
                    # backend failure (idnkit): nothing may have been switched
                    if cb_sets or u is not None: why.append(f'failed 6531 setup (returns {p.ret()[1]}) has already assigned {sorted(cb_sets) + (["eav->utf8"] if u else [])}')
                elif mode == '6531':
                    if cb_sets != {'eav->utf8_cb': 'is_6531_email'}: why.append(f'callbacks set: {cb_sets}')
                    if u is None or u[2] != '1': why.append('utf8 not set to true')
                else:
                    if cb_sets != {'eav->ascii_cb': f'is_{mode}_email'}: why.append(f'callbacks set: {cb_sets}')
                    if u is None or u[2] != '0': why.append('utf8 not reset to false')
                    if p.ret()[1] != 'EEAV_NO_ERROR': why.append(f'returns {p.ret()[1]}')
            r1.instance(site, ok=not why, wclass='arm-wiring', what=f'{en}: ' + '; '.join(sorted(set(why))), detail=ps[0].text())
        for p in arms.get('<default>', []):
            touched = [e[1] for e in p.sets() if e[1] in ('eav->ascii_cb', 'eav->utf8_cb', 'eav->utf8')]
            r1.instance(f'{key}:eav_setup:default', ok=(not touched and p.ret()[1] == 'EEAV_INVALID_RFC'), wclass='default-arm',
                        what=f'default arm assigns {touched} / returns {p.ret()[1]} (want: nothing assigned, EEAV_INVALID_RFC)')
        if '<default>' not in arms:
            r1.instance(f'{key}:eav_setup:default', ok=False, wclass='default-arm', what='eav_setup has no default arm rejecting unknown rfc values')
        # dispatch
        eng, paths = cfgpaths.summarise(tu, 'eav_is_email')
        why = []
        extra = ('eav->idn', 'eav->actions') if b == 'idnkit' else ()
        for p in paths:
            cbs = [c for c in p.calls() if c[1].startswith('(*')]
            if len(cbs) != 1: why.append(f'{len(cbs)} callback calls on one path'); continue
            c = cbs[0]
            if p.passed('eav->utf8', True): want = ('(*utf8_cb)', extra + ('email', 'length', 'eav->tld_check'))
            elif p.passed('eav->utf8', False): want = ('(*ascii_cb)', ('email', 'length', 'eav->tld_check'))
            else: why.append('callback chosen without testing eav->utf8'); continue
            if (c[1], c[2]) != want: why.append(f'calls {c[1]}{c[2]}, want {want}')
            s = p.last_set('eav->result')
            if s is None or s[2] != c[3]: why.append('callback result not stored in eav->result')
        r1.instance(f'{key}:eav_is_email:dispatch', ok=not why, wclass='dispatch', what='; '.join(sorted(set(why))))
    # ---- e-mail functions
    etus = emailfn.load()
    sums = emailfn.summaries(etus)
    r2 = ck.rule('R1.2', 'is_<m>_email calls exactly one local-part scanner, is_<m>_local(email, <the @ pointer>), stores its code and returns on failure', 6)
    r3 = ck.rule('R1.3', 'on every path to a validator: length != 0; split at strrchr(email, \'@\'); pointer non-NULL and not last; local part <= 64 octets (64 accepted, 65 rejected); domain validator gets (at+1, email+length); bracket branch iff at[1] == \'[\'; rejected shapes carry EMAIL_EMPTY / DOMAIN_EMPTY / LPART_TOO_LONG', 6)
    for key, (eng, paths) in sorted(sums.items()):
        mode = re.search(r'is_(\d+)_email', key).group(1)
        fname = f'is_{mode}_email'; site = f'{key}:{fname}'
        ck.analysed(units=[key], functions=[site])
        why2 = []; why3 = []
        n_valid = 0
        for p in paths:
            if p.events and p.events[-1][0] == 'abort': continue
            loc = [c for c in p.calls() if re.fullmatch(r'is_\w+_local', c[1])]
            dom = [c for c in p.calls() if c[1] in ('is_ascii_domain', 'is_utf8_domain', 'is_ipaddr')]
            rc = final_rc(p)
            at = p.calls('strrchr')[0] if p.calls('strrchr') else None
            if not loc:
                # rejected before any validator
                if p.passed('length', False): exp = '-EEAV_EMAIL_EMPTY'
                elif at and (p.passed(at[3], False) or p.passed(f'({at[3]} == NULL)', True) or p.passed(f'({at[3]} != NULL)', False) or shared.passed_equation(p, f'({at[3]} + 1)', '(email + length)', True)): exp = '-EEAV_DOMAIN_EMPTY'
                else: exp = '-EEAV_LPART_TOO_LONG'
                if rc != exp: why3.append(f'early rejection leaves rc = {rc}, want {exp}')
                if dom: why3.append('domain validated without a local-part check')
                continue
            n_valid += 1
            if len(loc) != 1 or loc[0][1] != f'is_{mode}_local': why2.append(f'calls {[c[1] for c in loc]}')
            c = loc[0]
            if at is None or at[2] != ('email', "'@'"): why3.append(f'split pointer is not strrchr(email, \'@\'): {at[1:3] if at else None}'); continue
            A = at[3]
            if c[2] != ('email', A): why2.append(f'{c[1]} called with {c[2]}, want (email, {A})')
            i = p.events.index(c)
            if not p.passed('length', True, before=i): why3.append('no length != 0 test before the local-part check')
            if not p.passed(A, True, before=i): why3.append('no NULL test of the @ pointer')
            if not shared.passed_equation(p, f'({A} + 1)', '(email + length)', False, before=i): why3.append('no "@ is last" test (ch + 1 == end with end = email + length)')
            lim = [e for e in p.events[:i] if e[0] == 'cond' and re.fullmatch(r'\(\(' + re.escape(A) + r' - email\) (>|>=|<|<=) (-?\d+)\)', e[1])]
            if len(lim) != 1: why3.append(f'{len(lim)} local-part length test(s) before the scanner')
            else:
                m = re.fullmatch(r'\(\(.* - email\) (>|>=|<|<=) (-?\d+)\)', lim[0][1]); op, K = m.group(1), int(m.group(2))
                ev = lambda d: {'>': d > K, '>=': d >= K, '<': d < K, '<=': d <= K}[op]
                if not (ev(64) == lim[0][2] and ev(65) != lim[0][2]): why3.append(f'length test "{lim[0][1]}" taken {lim[0][2]}: does not accept 64 octets and reject 65')
            st = [e for e in p.events[i:] if e[0] == 'set' and e[1].endswith('->rc')]
            if not st or st[0][2] != c[3]: why2.append('scanner code not stored in result->rc')
            failed = p.passed(f'({c[3]} != EEAV_NO_ERROR)', True)
            if failed and (dom or rc != c[3]): why2.append('continues / changes rc after a local-part failure')
            if not failed:
                br = f"(*({A} + 1) != '[')"
                host = [d for d in dom if d[1] in ('is_ascii_domain', 'is_utf8_domain')]
                if host:
                    want_v = 'is_utf8_domain' if mode == '6531' else 'is_ascii_domain'
                    if host[0][1] != want_v: why3.append(f'host-name branch of mode {mode} validates the domain with {host[0][1]}, the mode\'s domain validator is {want_v}')
                    a = host[0][2]
                    if a[-3 if host[0][1] == 'is_utf8_domain' else 0:][:2] != (f'({A} + 1)', '(email + length)') and a[:2] != (f'({A} + 1)', '(email + length)'):
                        why3.append(f'{host[0][1]} receives {a}')
                    bq = f"(*({A} + 1) == '[')"
                    if not (p.passed(br, True) or p.passed(bq, False)): why3.append('host-name branch taken without testing at[1] != \'[\'')
                else:
                    bq = f"(*({A} + 1) == '[')"
                    if not (p.passed(br, False) or p.passed(bq, True)): why3.append('literal branch taken although at[1] is not known to be \'[\'')
        if n_valid == 0: why2.append('no path reaches the local-part scanner')
        r2.instance(site, ok=not why2, wclass='local-call', what='; '.join(sorted(set(why2))))
        r3.instance(site, ok=not why3, wclass='split-bounds', what='; '.join(sorted(set(why3))))
    twin_agreement(ck, 'R1.4')
    ck.undecided('that the per-part validators accept the right languages (C02-C05); tld_check = on policy (C07-C09)')
    ck.assume('inputs are NUL-terminated with length == strlen(email), as the statement says')


def final_rc(p):
    for e in reversed(p.events):
        if e[0] == 'set' and e[1].endswith('->rc'): return e[2]
    return None
