"""C08 - allow_tld / tld_check policy.  The 2^11 masks collapse statically: each switch arm tests exactly one
single-bit constant, so the policy is decided by reading the arm table, the bit values and the paths around it."""
import re
import unitdb, cfgpaths, astutil
from report import AnalysisBroken
from rules import shared

LEVEL = 'other'
BACKENDS = ('idn2', 'idn', 'idnkit')
DEFAULT_CLASSES = ('COUNTRY_CODE', 'GENERIC', 'GENERIC_RESTRICTED', 'INFRASTRUCTURE', 'SPONSORED', 'SPECIAL')


def run(ck):
    us = unitdb.units()
    tus = unitdb.load_asts([u for u in us if u.group != 'cli'])
    ck.analysed(units=sorted(tus))
    r1 = ck.rule('R8.1', 'every assignable class TLD_TYPE_X has exactly one switch arm whose only effects are errcode = EEAV_TLD_X and tld_test = allow_tld & EAV_TLD_X (same X)', 27)
    r2 = ck.rule('R8.2', 'EAV_TLD_* are distinct, non-zero, single-bit constants', 9)
    r3 = ck.rule('R8.3', 'switch reached only for rc > 0; rc == 0 accepts and rc < 0 rejects before any read of allow_tld; after an arm: accept (errcode = NO_ERROR) iff the tested bit is set', 60)
    r4 = ck.rule('R8.4', 'tld_check == false: the domain pipeline returns 0 before any of is_special_domain / last-dot search / is_tld; allow_tld and tld_check are read nowhere else in the library', 8)
    r5 = ck.rule('R8.5', 'eav_init: rfc = 6531, tld_check = true, allow_tld = CC|GENERIC|GENERIC_RESTRICTED|INFRASTRUCTURE|SPONSORED|SPECIAL', 9)
    for b in BACKENDS:
        key = f'partial/{b}/eav.c'
        if key not in tus: raise AnalysisBroken(f'{key} not analysed')
        tu = tus[key]
        site = f'{key}:eav_is_email'
        ck.analysed(functions=[f'{key}:eav_is_email', f'{key}:eav_init'])
        eng, paths = cfgpaths.summarise(tu, 'eav_is_email')
        classes = shared.assignable_classes(tu)
        # ---- R8.2
        # the policy bits are the enumerators of the public enum that declares them (a file-local constant that happens to
        # start with EAV_TLD_, e.g. a named default mask, is not one of them)
        pub = [names for names in tu.enum_decls.values() if 'EAV_TLD_COUNTRY_CODE' in names]
        if not pub: raise AnalysisBroken('enum with EAV_TLD_COUNTRY_CODE not found')
        bits = {k: tu.enums[k] for k in pub[0] if k.startswith('EAV_TLD_')}
        if b == 'idn2':
            seen = {}
            for k, v in bits.items():
                ok = v > 0 and (v & (v - 1)) == 0 and v not in seen
                r2.instance(f'include/eav.h:{k}', ok=ok, detail={'value': v}, wclass='bit', what=f'{k} = {v} is not a distinct single bit' + (f' (same as {seen.get(v)})' if v in seen else ''))
                seen.setdefault(v, k)
            for x in classes:
                if f'EAV_TLD_{x}' not in bits: r2.instance(f'include/eav.h:EAV_TLD_{x}', ok=False, wclass='missing', what=f'class {x} has no EAV_TLD_ bit')
        # ---- arms
        arms = {}
        for p in paths:
            for i, e in enumerate(p.events):
                if e[0] == 'cond' and ' in [' in e[1] and e[2]:
                    scrut, names = e[1].split(' in [', 1); names = names[:-1].split(', ')
                    arms.setdefault(tuple(names), []).append((p, i, scrut))
        if not arms: raise AnalysisBroken(f'{site}: no switch found')
        for x in classes:
            hits = [a for a in arms if f'TLD_TYPE_{x}' in a]
            asite = f'{site}:case TLD_TYPE_{x}'
            if len(hits) != 1 or len(hits[0]) != 1:
                r1.instance(asite, ok=False, wclass='arm-count', what=f'class {x} is handled by {len(hits)} arm(s) {hits}; want exactly one arm of its own'); continue
            okall = True; det = None
            for p, i, scrut in arms[hits[0]]:
                sets = [(e[1], e[2]) for e in p.events[i + 1:] if e[0] == 'set']
                # effects up to the post-switch test
                want = [('eav->errcode', f'EEAV_TLD_{x}'), ('<a local>', f'(eav->allow_tld & EAV_TLD_{x})')]
                head = sets[:2]
                # the arm records the class's code and keeps the mask test in a local (whatever it is called)
                # ... or keeps the class's bit in a local that is tested against the mask after the switch (R8.3 checks the test)
                got_ok = len(head) == 2 and ('eav->errcode', f'EEAV_TLD_{x}') in head and any(re.fullmatch(r'\w+', t) and v in (f'(eav->allow_tld & EAV_TLD_{x})', f'((eav->allow_tld & EAV_TLD_{x}) != 0)', f'EAV_TLD_{x}') for t, v in head)
                if not got_ok: okall = False; det = {'effects': sets, 'want': want}
                rs = p.last_set('eav->result', before=i)
                if rs is None or scrut != rs[2] + '->rc': okall = False; det = {'scrutinee': scrut, 'result': rs[2] if rs else None}
            r1.instance(asite, ok=okall, detail=det, wclass='arm-effects', what=f'arm of class {x} does not set errcode = EEAV_TLD_{x} and test allow_tld & EAV_TLD_{x}: {det}')
        for a in arms:
            for nm in a:
                if nm != '<default>' and nm.replace('TLD_TYPE_', '') not in classes:
                    r1.instance(f'{site}:case {nm}', ok=False, wclass='extra-arm', what=f'arm for {nm}, which is not an assignable class')
        # ---- R8.3 paths
        for n, p in enumerate(paths):
            txt = p.text(); ret = p.ret()
            arm_i = p.index(lambda e: e[0] == 'cond' and ' in [' in e[1])
            rs = p.last_set('eav->result')
            if rs is None:
                r3.instance(f'{site}:path{n}', ok=False, wclass='no-result', what='path returns without storing a callback result', detail=txt); continue
            rc = rs[2] + '->rc'
            reads_mask = lambda evs: any('allow_tld' in t for t in cfgpaths_text(evs))
            if arm_i < 0:
                # rc == 0 -> YES/NO_ERROR ; rc < 0 -> NO ; both without looking at the mask
                zero = shared.value_is_zero(p, rc)
                neg = shared.value_is_nonzero(p, rc) and (p.passed(f'({rc} < 0)', True) or p.passed(f'({rc} >= 0)', False))
                ok = (zero or neg) and not reads_mask(p.events)
                if zero: ok = ok and ret[1] == '1' and p.last_set('eav->errcode') and p.last_set('eav->errcode')[2] == 'EEAV_NO_ERROR'
                if neg: ok = ok and ret[1] == '0'
                r3.instance(f'{site}:path{n}', ok=ok, wclass='pre-switch', detail=txt, what='a path that never reaches the class switch is not (rc == 0 -> accept) / (rc < 0 -> reject) without reading allow_tld')
                continue
            ok = shared.value_is_nonzero(p, rc, arm_i) and (p.passed(f'({rc} < 0)', False, before=arm_i) or p.passed(f'({rc} >= 0)', True, before=arm_i)) and not reads_mask(p.events[:arm_i])
            arm = p.events[arm_i][1]
            if '<default>' in arm:
                ok = ok and p.events[-1][0] == 'abort'
                r3.instance(f'{site}:path{n}', ok=ok, wclass='default-arm', detail=txt, what='default arm of the class switch is reachable for rc <= 0 or does not stop'); continue
            m = re.search(r'in \[TLD_TYPE_(\w+)\]', arm)
            x = m.group(1) if m else '?'
            t = f'(eav->allow_tld & EAV_TLD_{x})'
            last = p.last_set('eav->errcode')
            if shared.value_is_nonzero(p, t):
                ok = ok and ret[1] == '1' and last[2] == 'EEAV_NO_ERROR'
            elif shared.value_is_zero(p, t):
                ok = ok and ret[1] == '0' and last[2] == f'EEAV_TLD_{x}'
            else: ok = False
            r3.instance(f'{site}:path{n}', ok=ok, wclass='post-switch', detail=txt, what=f'class {x}: decision is not "accept with NO_ERROR iff allow_tld & EAV_TLD_{x}"')
        # ---- R8.5
        e5, p5 = cfgpaths.summarise(tu, 'eav_init', fold_enums=True)
        mask = 0
        for x in DEFAULT_CLASSES: mask |= tu.enums[f'EAV_TLD_{x}']
        want = {'eav->rfc': str(tu.enums['EAV_RFC_6531']), 'eav->tld_check': '1', 'eav->allow_tld': str(mask)}
        for p in p5:
            for lv, v in want.items():
                s = p.last_set(lv)
                r5.instance(f'{key}:eav_init:{lv}', ok=(s is not None and s[2] == v), wclass='default', detail={'assigned': s[2] if s else None, 'want': v},
                            what=f'eav_init leaves {lv} = {s[2] if s else "unassigned"}, documented default is {v}')
    # ---- R8.4
    gate_fns = [('src/is_822_email.c', 'is_822_email'), ('src/is_5321_email.c', 'is_5321_email'), ('src/is_5322_email.c', 'is_5322_email')] + \
               [(f'partial/{b}/is_utf8_domain.c', 'is_utf8_domain') for b in BACKENDS]
    for key, fn in gate_fns:
        tu = tus[key]; ck.analysed(functions=[f'{key}:{fn}'])
        eng, paths = cfgpaths.summarise(tu, fn)
        off = [p for p in paths if p.passed('tld_check', False)]
        ok = bool(off); det = None
        for p in off:
            i = p.index(lambda e: e[0] == 'cond' and e[1] == 'tld_check')
            later = [c[1] for c in p.events[i:] if c[0] == 'call' and c[1] in ('is_special_domain', 'is_tld', 'strrchr', 'strchr')]
            rv = final_rc(p)
            if later or not shared.value_is_zero(p, rv): ok = False; det = {'calls_after_gate': later, 'rc': rv, 'path': p.text()}
        # and nothing TLD-related happens before the gate
        for p in paths:
            i = p.index(lambda e: e[0] == 'cond' and e[1] == 'tld_check')
            for c in p.calls():
                if c[1] in ('is_special_domain', 'is_tld') and (i < 0 or p.events.index(c) < i): ok = False; det = {'ungated_call': c[1], 'path': p.text()}
        r4.instance(f'{key}:{fn}:tld_check gate', ok=ok, wclass='gate', detail=det, what='with tld_check == false the domain pipeline still consults is_special_domain / last dot / is_tld, or does not return 0')
    # reads of allow_tld / tld_check anywhere else
    for key, tu in tus.items():
        for fname, f in tu.own_functions().items():
            for m in astutil.find(f, 'MemberExpr'):
                if m.get('name') == 'allow_tld' and not (key.endswith('/eav.c') and fname in ('eav_is_email', 'eav_init')):
                    r4.instance(f'{key}:{fname}:allow_tld', ok=False, wclass='stray-read', what=f'allow_tld is accessed in {fname} ({astutil.where(m)})')
                if m.get('name') == 'tld_check' and not (key.endswith('/eav.c') and fname in ('eav_is_email', 'eav_init')):
                    r4.instance(f'{key}:{fname}:tld_check', ok=False, wclass='stray-read', what=f'eav_t.tld_check is accessed in {fname} ({astutil.where(m)})')
    for b in BACKENDS:
        tu = tus[f'partial/{b}/eav.c']
        eng, paths = cfgpaths.summarise(tu, 'eav_is_email')
        ok = True
        for p in paths:
            for c in p.calls():
                if c[1].startswith('(*') and c[2][-1] != 'eav->tld_check': ok = False
            for e in p.events:
                if e[0] == 'cond' and 'tld_check' in e[1]: ok = False
        r4.instance(f'partial/{b}/eav.c:eav_is_email:tld_check', ok=ok, wclass='passthrough', what='eav->tld_check is not passed unchanged as the last callback argument, or is tested in eav_is_email')
    ck.assume('callbacks return rc <= 0 whenever tld_check is false (R8.4 for the shipped callbacks; decided per path in C16 R16.4)')
    ck.undecided('that the class reported by the domain pipeline is the right one (C07, C09)')
    ck.notes.append('The 2^11 allow_tld values x 9 classes collapse to 9 single-bit tests per backend; all 3 backends analysed (idn, idnkit parsed against stub headers).')


def cfgpaths_text(evs):
    out = []
    for e in evs:
        if e[0] == 'cond': out.append(e[1])
        elif e[0] == 'set': out.append(f'{e[1]} := {e[2]}')
        elif e[0] == 'call': out.append(f'{e[1]}({", ".join(e[2])})')
        elif e[0] == 'return': out.append(str(e[1]))
    return out


def final_rc(p):
    """value the path leaves in result->rc (email functions) or returns (is_utf8_domain)"""
    for e in reversed(p.events):
        if e[0] == 'set' and e[1].endswith('->rc'): return e[2]
    r = p.ret()
    return r[1] if r else None
