"""C11 - generated TLD table is a faithful translation of data/punycode.csv.
Translation validation: the artefacts (src/auto_tld.c as clang sees it, include/eav/auto_tld.h,
data/tld-domains.txt) are compared with f(CSV), f being the generators' rules with their parameters
(type map, manager overrides, output templates) read from the Perl sources on every run."""
import os, re
import unitdb, tables, astutil
from report import REPO, AnalysisBroken
from rules import shared

LEVEL = 'translation_validation'


def generator_params(ck):
    """parameters of util/gentld.pl, read from its text; the parts we transcribe are pinned"""
    path = os.path.join(REPO, 'util/gentld.pl')
    try: text = open(path, encoding='utf-8').read()
    except OSError as e: raise AnalysisBroken(f'generator missing: {e}')
    types = tables.perl_hash(text, 'tld_types')
    # manager overrides: if/elsif chain on $tld_manager =~ m/RE/flags -> $type = "..."; else -> $tld_types{...}
    chain = re.findall(r'(?:if|elsif)\s*\(\s*\$tld_manager\s*=~\s*m/((?:[^/\\]|\\.)*)/(\w*)\s*\)\s*\{\s*\$type\s*=\s*"([A-Z_]+)"\s*;', text)
    if not chain: raise AnalysisBroken('gentld.pl: manager override chain not recognised')
    if not re.search(r'else\s*\{\s*\$type\s*=\s*\$tld_types\{\s*\$row->\[1\]\s*\}\s*;', text):
        raise AnalysisBroken('gentld.pl: default "$type = $tld_types{ $row->[1] }" not recognised')
    if not re.search(r'my\s+\$tld_manager\s*=\s*\$row->\[2\]\s*;', text):
        raise AnalysisBroken('gentld.pl: "$tld_manager = $row->[2]" not recognised')
    m = re.search(r'printf\s+\$cfh\s+"((?:[^"\\]|\\.)*)"\s*,\s*\$row->\[0\]\s*,\s*length\s*\(\s*\$row->\[0\]\s*\)\s*([+-])\s*(\d+)\s*,\s*\$type\s*;', text)
    if not m: raise AnalysisBroken('gentld.pl: row printf not recognised')
    rowfmt = tables.perl_string(m.group(1)); off = int(m.group(3)) * (1 if m.group(2) == '+' else -1)
    if not re.search(r'#\s*skip header\s*\n\s*\$csv->getline\(\$io\);', text):
        raise AnalysisBroken('gentld.pl: header skip not recognised')
    # header file template: heredoc + prints, in order
    hd = re.search(r"<<'EOL';\n(.*?)\nEOL\n", text, re.S)
    if not hd: raise AnalysisBroken('gentld.pl: header heredoc not recognised')
    sub_h = text[text.index('sub gen_tld_h'):text.index('sub gen_tld_c')]
    sub_c = text[text.index('sub gen_tld_c'):]
    enum_fixed = []
    for stmt in re.findall(r'print \$fh ((?:"(?:[^"\\]|\\.)*"|[^;"])*);', sub_h):
        enum_fixed += re.findall(r'"((?:[^"\\]|\\.)*)"', stmt)
    if 'for my $type (sort values %tld_types)' not in sub_h:
        raise AnalysisBroken('gentld.pl: sorted enum loop not recognised')
    c_prints = re.findall(r'print(?:f)? \$cfh "((?:[^"\\]|\\.)*)"', sub_c)
    return {'types': types, 'chain': chain, 'rowfmt': rowfmt, 'off': off, 'heredoc': hd.group(1) + '\n',
            'h_prints': [tables.perl_string(s) for s in enum_fixed], 'c_prints': [tables.perl_string(s) for s in c_prints], 'text': text}


def classify(gp, row):
    mgr = row[2]
    for rx, flags, typ in gp['chain']:
        if re.search(rx, mgr, re.I if 'i' in flags else 0): return typ
    return gp['types'][row[1]]


def statement_class(row):
    """the class the STATEMENT dictates for a CSV row: 'Not assigned' manager -> not-assigned, 'Retired' manager -> retired,
    otherwise the row's IANA type"""
    mgr = row[2].lower()
    if mgr.startswith('not assigned'): return 'TLD_TYPE_NOT_ASSIGNED'
    if mgr.startswith('retired'): return 'TLD_TYPE_RETIRED'
    return 'TLD_TYPE_' + row[1].upper().replace('-', '_')


def expected_header(gp):
    """text gen_tld_h() writes"""
    hp = gp['h_prints']
    # prints in order: "enum {\n", UNUSED, NOT_ASSIGNED, [loop: "    ", ",\n"], SPECIAL, RETIRED, MAX, "};\n\n", extern, #endif
    try:
        i = hp.index('    '); j = hp.index(',\n')
    except ValueError:
        raise AnalysisBroken('gentld.pl: enum loop prints not recognised')
    if j != i + 1: raise AnalysisBroken('gentld.pl: enum loop prints not adjacent')
    out = gp['heredoc'] + ''.join(hp[:i])
    for t in sorted(gp['types'].values()): out += '    ' + t + ',\n'
    out += ''.join(hp[j + 1:])
    return out


def enum_order(header_text):
    m = re.search(r'enum\s*\{(.*?)\};', header_text, re.S)
    body = re.sub(r'/\*.*?\*/', '', m.group(1), flags=re.S)
    return [x.strip() for x in body.split(',') if x.strip()]


def run(ck):
    try: gp = generator_params(ck); gp_err = None
    except AnalysisBroken as e: gp = None; gp_err = e
    us = [u for u in unitdb.units() if u.rel in ('src/auto_tld.c', 'src/is_tld.c')]
    if len(us) != 2: raise AnalysisBroken('src/auto_tld.c / src/is_tld.c not among the built units')
    tus = unitdb.load_asts(us)
    tu = tus['src/auto_tld.c']
    ck.analysed(units=[u.key for u in us] + ['util/gentld.pl', 'util/gen_utf8_pass_test.pl', 'data/punycode.csv', 'data/raw.csv',
                                                'data/tld-domains.txt', 'include/eav/auto_tld.h', 'Makefile'])
    var, rows = tables.global_table(tu, 'tld_list', keep_names=True)
    puny = tables.read_csv(os.path.join(REPO, 'data/punycode.csv'))
    raw = tables.read_csv(os.path.join(REPO, 'data/raw.csv'))
    if len(puny) < 2: raise AnalysisBroken('punycode.csv is empty')
    prow = puny[1:]; rrow = raw[1:]

    # R11.0 the table is what is_tld searches, the way C11 models it (shape rule shared with C07)
    r0 = ck.rule('R11.0', 'is_tld scans tld_list from the first row to the NULL sentinel, matching with strncasecmp(row.domain, start, row.length) and returning row.type', 1)
    shape = shared.is_tld_shape(tus['src/is_tld.c'])
    r0.instance('src/is_tld.c:is_tld', ok=shape['ok'], detail=shape, wclass='shape', what='is_tld no longer has the lookup shape the table model assumes: ' + shape.get('why', ''))
    ck.analysed(functions=['is_tld'])

    # R11.9 the statement's own reading of the CSV, independent of the generators' text: row i of the table is
    # {domain_i, strlen+1, class the statement dictates}, nothing is missing and nothing is added; the test list has the
    # line "<d>.<d>" for every row of raw.csv.  (A generator and artefacts changed together still face this rule.)
    r9 = ck.rule('R11.9', 'statement vs artefacts, generators not consulted: tld_list[i] == {csv[i].domain, strlen+1, class by the documented rule} for every CSV row in order, no further rows; data/tld-domains.txt has one line "<d>.<d>" per raw.csv row', 2000)
    for i in range(max(len(prow), len(rows) - 1)):
        c = prow[i] if i < len(prow) else None; got = rows[i] if i < len(rows) - 1 else None
        exp = [c[0], len(c[0]) + 1, statement_class(c)] if c else None
        r9.instance(f'data/punycode.csv:row{i + 2}' if c else f'src/auto_tld.c:tld_list[{i}]', ok=(exp is not None and got == exp), wclass='missing-row' if got is None else 'extra-row' if c is None else 'row',
                    what=(f'CSV row {i + 2} {c[0]!r} has no table row (the table ends after {len(rows) - 1} rows)' if got is None else f'table row {i} {got} has no CSV row' if c is None else f'table row {i} = {got}, the CSV dictates {exp}'),
                    detail={'csv_row': c, 'table': got})
    tl = open(os.path.join(REPO, 'data/tld-domains.txt'), encoding='utf-8').read().split('\n')
    if tl and tl[-1] == '': tl.pop()
    for i in range(max(len(rrow), len(tl))):
        exp = f'{rrow[i][0]}.{rrow[i][0]}' if i < len(rrow) else None; got = tl[i] if i < len(tl) else None
        r9.instance(f'data/tld-domains.txt:{i + 1}', ok=(exp is not None and exp == got), wclass='test-list-line',
                    what=f'test list line {i + 1} is {got!r}; raw.csv row {i + 2} requires {exp!r}', detail={'expected': exp, 'got': got})
    if gp is None:
        # the generators' text is not in the shape this check can read.  If the artefacts already contradict the CSV that is
        # a violation in its own right; otherwise the generator rules cannot be evaluated: exit 2.
        if ck.violations:
            ck.notes.append(f'generator rules R11.1 / R11.4 - R11.8 not evaluated: {gp_err}')
            ck.undecided(f'generator-side rules (R11.1, R11.4-R11.8): {gp_err}')
            return
        raise gp_err
    # R11.1 row-by-row equality with f(CSV)
    r1 = ck.rule('R11.1', 'tld_list[i] == {csv[i].domain, length(domain)+off, class(csv[i])} for every CSV row, in CSV order', 1000)
    n = max(len(prow), len(rows) - 1)
    for i in range(n):
        exp = None
        if i < len(prow):
            if prow[i][1] not in gp['types']:
                r1.instance(f'data/punycode.csv:row{i + 2}', ok=False, wclass='unknown-type', what=f'generator would die: unknown TLD type {prow[i][1]!r}', detail=prow[i]); continue
            exp = [prow[i][0], len(prow[i][0]) + gp['off'], classify(gp, prow[i])]
        got = rows[i] if i < len(rows) - 1 else None
        site = f'src/auto_tld.c:tld_list[{i}]'
        ok = exp is not None and got == exp
        r1.instance(site, ok=ok, detail={'csv_row': prow[i] if i < len(prow) else None, 'expected': exp, 'table': got},
                    wclass='row', what=f'table row {i} = {got} but generator rules on CSV row give {exp}')
    for i in (0, len(prow) // 2, len(prow) - 1):
        ck.sample({'csv': prow[i], 'table_row': rows[i]})
    # R11.8 the generator's own rule is the documented one on every row of the shipped CSV
    r8 = ck.rule('R11.8', 'util/gentld.pl classifies every CSV row as the statement documents (manager "Not assigned" -> not-assigned, "Retired" -> retired, otherwise the IANA type) and the table row carries that class', 1000)
    for i, c in enumerate(prow):
        if c[1] not in gp['types']: continue
        want = statement_class(c); gen = classify(gp, c); tab = rows[i][2] if i < len(rows) - 1 else None
        r8.instance(f'data/punycode.csv:row{i + 2}', ok=(gen == want and tab == want), wclass='class-rule',
                    what=f'{c[0]!r} (type {c[1]!r}, manager {c[2]!r}) must be {want}; util/gentld.pl yields {gen}, the compiled table has {tab}', detail={'row': c})
    # R11.2 sentinel
    r2 = ck.rule('R11.2', 'the table ends with exactly one {NULL,0,0} sentinel, after the last CSV row', 1)
    last = rows[-1]
    r2.instance('src/auto_tld.c:tld_list[last]', ok=(last == [None, 0, 0] and all(r[0] is not None for r in rows[:-1])),
                detail={'last': last}, wclass='sentinel', what='missing or misplaced {NULL,0,0} sentinel')
    # R11.3 lookup semantics over the whole table: every CSV domain is found (first match) with its class, nothing else is
    r3 = ck.rule('R11.3', 'first-match lookup of every CSV domain yields its class; no domain listed twice; entries lower-case LDH A-labels', 1000)
    first = {}
    for i, r in enumerate(rows[:-1]):
        d = r[0]
        if d is None: continue
        key = d.lower()
        dup = key in first
        ldh = re.fullmatch(r'[a-z0-9]([a-z0-9-]*[a-z0-9])?', d) is not None
        lenok = r[1] == len(d) + 1          # whole-label match needs the terminator inside the compared length
        if not dup: first[key] = r[2]
        r3.instance(f'src/auto_tld.c:tld_list[{i}]', ok=(not dup and ldh and lenok), wclass='duplicate' if dup else 'spelling' if not ldh else 'length',
                    detail={'row': r}, what=('domain listed twice' if dup else 'not a lower-case LDH A-label' if not ldh else 'length field is not strlen+1 (prefix/over-long match)') + f': {r}')
    for i, c in enumerate(prow):
        if c[1] in gp['types'] and first.get(c[0].lower()) != classify(gp, c):
            r3.instance(f'data/punycode.csv:row{i + 2}', ok=False, wclass='lookup', what=f'lookup of {c[0]!r} yields {first.get(c[0].lower())} instead of {classify(gp, c)}', detail=c)
    extra = set(first) - {c[0].lower() for c in prow}
    for d in sorted(extra):
        r3.instance(f'src/auto_tld.c:domain:{d}', ok=False, wclass='not-in-csv', what=f'table lists {d!r}, which the CSV does not contain')
    # R11.4 header: enum order, and the file text equals the generator's template
    r4 = ck.rule('R11.4', 'include/eav/auto_tld.h equals gen_tld_h() output; enumerator values follow the generated order; every class the table uses is an enumerator', 2)
    hpath = os.path.join(REPO, 'include/eav/auto_tld.h')
    htext = open(hpath, encoding='utf-8').read()
    exp_h = expected_header(gp)
    r4.instance('include/eav/auto_tld.h', ok=(htext == exp_h), wclass='header-text',
                what='auto_tld.h differs from what util/gentld.pl writes', detail=_first_diff(exp_h, htext))
    order = enum_order(exp_h)
    vals = [tu.enums.get(nm) for nm in order]
    r4.instance('include/eav/auto_tld.h:enum', ok=(vals == list(range(len(order)))), wclass='enum-order',
                what='TLD_TYPE_* values as compiled do not follow the generator order', detail=dict(zip(order, vals)))
    used = {r[2] for r in rows[:-1] if isinstance(r[2], str)}
    r4.instance('src/auto_tld.c:classes', ok=used <= set(order) - {'TLD_TYPE_UNUSED', 'TLD_TYPE_MAX', 'TLD_TYPE_SPECIAL'}, wclass='class-set',
                what=f'table uses classes outside the generated, assignable enumerators: {sorted(used - set(order))}', detail=sorted(used))
    # R11.5 auto_tld.c text == generator output modulo the timestamp
    r5 = ck.rule('R11.5', 'src/auto_tld.c text equals gen_tld_c() output on data/punycode.csv (timestamp aside)', 1)
    mk = open(os.path.join(REPO, 'Makefile'), encoding='utf-8').read()
    mm = re.search(r'util/gentld\.pl\s+(\S+)\s+(\S+)\s*\\?\s*\n?\s*(\S+)', mk)
    if not mm: raise AnalysisBroken('Makefile: gentld.pl invocation not found')
    h_arg, c_arg, csv_arg = mm.group(1), mm.group(2), mm.group(3)
    if (c_arg, csv_arg) != ('src/auto_tld.c', 'data/punycode.csv'):
        raise AnalysisBroken(f'Makefile runs gentld.pl on {c_arg} {csv_arg}: re-confirm C11 anchors')
    cp = gp['c_prints']
    # transcription of gen_tld_c's print sequence; pinned to the Perl literals
    pinned = ['/* this file was auto-generated at %s */\n\n', '#include <stdio.h> /* NULL */\n', '#include "$h_file"\n\n',
              'const tld_t tld_list[] = {\n', gp['rowfmt'], '    { NULL, 0, 0 }\n', '}; /* const tld_t tld_list[] */\n\n']
    if cp != pinned: raise AnalysisBroken(f'gentld.pl print sequence changed; re-confirm the transcription: {cp}')
    body = '#include <stdio.h> /* NULL */\n' + f'#include "{h_arg}"\n\n' + 'const tld_t tld_list[] = {\n'
    for c in prow:
        if c[1] in gp['types']: body += gp['rowfmt'] % (c[0], len(c[0]) + gp['off'], classify(gp, c))
    body += '    { NULL, 0, 0 }\n' + '}; /* const tld_t tld_list[] */\n\n'
    ctext = open(os.path.join(REPO, 'src/auto_tld.c'), encoding='utf-8').read()
    m = re.match(r'/\* this file was auto-generated at [^\n]* \*/\n\n', ctext)
    r5.instance('src/auto_tld.c', ok=bool(m) and ctext[m.end():] == body, wclass='c-text',
                what='auto_tld.c differs from what util/gentld.pl writes for data/punycode.csv', detail=_first_diff(body, ctext[m.end():] if m else ctext))
    # R11.6 tld-domains.txt == g(raw.csv)
    r6 = ck.rule('R11.6', 'data/tld-domains.txt line i == "<d>.<d>" for raw.csv row i (gen_utf8_pass_test.pl)', 1000)
    g2 = open(os.path.join(REPO, 'util/gen_utf8_pass_test.pl'), encoding='utf-8').read()
    mf = re.search(r'printf\s+\$out\s+"((?:[^"\\]|\\.)*)"\s*,\s*\$row->\[0\]\s*,\s*\$row->\[0\]\s*;', g2)
    if not mf: raise AnalysisBroken('gen_utf8_pass_test.pl: line printf not recognised')
    fmt2 = tables.perl_string(mf.group(1)); types2 = tables.perl_hash(g2, 'tld_types')
    lines = open(os.path.join(REPO, 'data/tld-domains.txt'), encoding='utf-8').read().split('\n')
    if lines and lines[-1] == '': lines.pop()
    for i in range(max(len(rrow), len(lines))):
        exp = (fmt2 % (rrow[i][0], rrow[i][0])).rstrip('\n') if i < len(rrow) and rrow[i][1] in types2 else None
        got = lines[i] if i < len(lines) else None
        r6.instance(f'data/tld-domains.txt:{i + 1}', ok=(exp == got and exp is not None), wclass='line', detail={'expected': exp, 'got': got},
                    what=f'line {i + 1} is {got!r}, generator gives {exp!r}')
    # R11.7 raw.csv and punycode.csv describe the same rows (so the test list names the library's TLD set)
    r7 = ck.rule('R11.7', 'raw.csv row i and punycode.csv row i agree: same type and manager, punycode(domain_raw) == domain_punycode', 1000)
    for i in range(max(len(rrow), len(prow))):
        if i >= len(rrow) or i >= len(prow):
            r7.instance(f'data/raw.csv:row{i + 2}', ok=False, wclass='row-count', what='raw.csv and punycode.csv have different row counts'); break
        a, b = rrow[i], prow[i]
        try:
            enc = a[0] if a[0].isascii() else 'xn--' + a[0].encode('punycode').decode('ascii')
        except UnicodeError:
            enc = None
        r7.instance(f'data/raw.csv:row{i + 2}', ok=(enc is not None and enc.lower() == b[0] and a[1:] == b[1:]), wclass='row',
                    detail={'raw': a, 'punycode': b, 'encoded': enc}, what=f'raw row {a} does not correspond to punycode row {b}')
    idn = [(a[0], b[0]) for a, b in zip(rrow, prow) if not a[0].isascii()]
    for s in idn[:2]: ck.sample({'raw': s[0], 'punycode': s[1]})
    ck.coverage_extra.update(programs=2, disagreements_checked=len(prow) + len(rrow) + len(lines),
                             csv_rows=len(prow), idn_rows=len(idn))
    ck.notes.append(f'{len(prow)} CSV rows, {len(rows) - 1} table rows, {len(lines)} test-list lines, {len(idn)} internationalised rows.')
    ck.assume('Python csv module reads the shipped CSVs as Text::CSV(binary) does (plain quoted fields, no embedded newlines)')
    ck.assume('Perl generators are not executed (Text::CSV is not installed): their rules are re-evaluated from parameters read out of the Perl text; unrecognised generator edits stop the check (exit 2)')
    ck.undecided('running the Perl programs themselves')


def _first_diff(a, b):
    al, bl = a.split('\n'), b.split('\n')
    for i in range(max(len(al), len(bl))):
        x = al[i] if i < len(al) else None; y = bl[i] if i < len(bl) else None
        if x != y: return {'line': i + 1, 'generator': x, 'file': y}
    return None
