"""C13 - eav_t reuse: the outcome depends only on current settings and address, not on history.
The history quantifier is reduced to per-call data-flow facts, decided on every path of the entry points in each
backend: (i) eav_is_email reads, of the object's incoming state, only the inputs (tld_check, allow_tld) and the
fields the last successful eav_setup derived from rfc; (ii) every per-call field (errcode, idnmsg, result) is
overwritten before it can be observed, its old value feeding nothing but its own release; (iii) the callbacks are
functions of their arguments (C14: no shared mutable state).  Then no sequence of earlier calls can matter."""
import cfgpaths
from rules import eavobj
from rules.eavobj import BACKENDS, STRERROR
from report import AnalysisBroken

LEVEL = 'other'
INPUTS = {'tld_check', 'allow_tld'}
DERIVED = {'utf8', 'utf8_cb', 'ascii_cb'}
PERCALL = {'errcode', 'idnmsg', 'result'}


def setup_paths(tu):
    eng, paths = cfgpaths.summarise(tu, 'eav_setup')
    if 'init_idn' in tu.functions:
        e2, ip = cfgpaths.summarise(tu, 'init_idn')
        paths = eavobj.inline(paths, ip, 'init_idn', tu.enums)
    for p in paths:
        if len([e for e in p.events if e[0] == 'cond' and e[1].startswith('eav->rfc in [')]) != 1:
            raise AnalysisBroken('eav_setup no longer selects the mode with one switch on eav->rfc (a different dispatch): the rules on its arms cannot judge it')
    return paths


def run(ck):
    tus = eavobj.load()
    r1 = ck.rule('R13.1', 'eav_is_email: result, errcode and idnmsg are (re)assigned or known-null on every path; the only reads of their old values are the release of the previous result and the truth test guarding the idnmsg reset; no other field is written', 3)
    r2 = ck.rule('R13.2', 'eav_setup: a path returning 0 assigns utf8 and the callback eav_is_email will use (constants of the arm); a path returning EEAV_INVALID_RFC writes nothing; eav_is_email reads no incoming field beyond inputs, derived fields and backend context', 6)
    r3 = ck.rule('R13.3', 'release discipline: exactly one eav_result_free(eav->result) per call, before eav->result is re-assigned; eav_free releases and nulls result; eav_init assigns every field the other entry points read', 9)
    r4 = ck.rule('R13.4', 'eav_errstr reads only errcode, idnmsg and the constant message table', 1)
    for b in BACKENDS:
        key = f'partial/{b}/eav.c'; tu = tus[key]
        ck.analysed(units=[key], functions=[f'{key}:{f}' for f in eavobj.ENTRY])
        ctx = {'idn', 'actions'} if b == 'idnkit' else set()
        # ---- eav_is_email
        eng, paths = cfgpaths.summarise(tu, 'eav_is_email')
        w1 = []; wreads = []
        for p in paths:
            if p.events and p.events[-1][0] == 'abort': continue
            wr = set(eavobj.writes(p))
            if not wr <= PERCALL: w1.append(f'writes {sorted(wr - PERCALL)}')
            if 'result' not in wr or 'errcode' not in wr: w1.append(f'path leaves {sorted({"result", "errcode"} - wr)} from the previous call')
            msg = p.last_set('eav->idnmsg')
            if msg is None:
                if not p.passed('eav->idnmsg', False): w1.append('idnmsg neither reset nor known to be NULL')
            elif msg[2] != 'NULL' and not msg[2].startswith(STRERROR[b] + '#'): w1.append(f'idnmsg := {msg[2]}')
            rs = p.last_set('eav->result')
            if rs is not None and not rs[2].startswith('(*'): w1.append(f'result := {rs[2]} (not a callback result)')
            reads = eavobj.incoming_reads(p)
            for f, ctxs in reads.items():
                if f in INPUTS | DERIVED | ctx: continue
                if f == 'result' and all(c == ('call', 'eav->result') for c in ctxs) and all(e[1] == 'eav_result_free' for e in p.calls() if 'eav->result' in e[2]): continue
                if f == 'idnmsg' and all(c == ('cond', 'eav->idnmsg') for c in ctxs): continue
                wreads.append(f'incoming {f} read in {ctxs[0][1]!r}')
            # release discipline
            fr = [i for i, e in enumerate(p.events) if e[0] == 'call' and e[1] == 'eav_result_free']
            si = p.index(lambda e: e[0] == 'set' and e[1] == 'eav->result')
            ok3 = len(fr) == 1 and p.events[fr[0]][2] == ('eav->result',) and si > fr[0]
            if not ok3: w1.append(f'{len(fr)} eav_result_free call(s) / result re-assigned at event {si}')
        r1.instance(f'{key}:eav_is_email', ok=not w1, wclass='per-call-fields', what='; '.join(sorted(set(w1))))
        r2.instance(f'{key}:eav_is_email:incoming-reads', ok=not wreads, wclass='history-read', what='; '.join(sorted(set(wreads))))
        # ---- eav_setup
        w2 = []
        for p in setup_paths(tu):
            rv = p.ret()[1]
            wr = eavobj.writes(p)
            if rv in ('EEAV_NO_ERROR', '0'):
                u = p.last_set('eav->utf8')
                if u is None or u[2] not in ('0', '1'): w2.append('success path without a constant utf8'); continue
                cb = p.last_set('eav->utf8_cb' if u[2] == '1' else 'eav->ascii_cb')
                if cb is None or not cb[2].startswith('is_'): w2.append(f'success path (utf8 = {u[2]}) does not assign the callback that will be used')
                if b == 'idnkit' and u[2] == '1' and not (p.last_set('eav->initialized') or p.passed('eav->initialized', True)): w2.append('6531 success without a live resolver context')
            elif rv == 'EEAV_INVALID_RFC':
                if set(wr) - PERCALL: w2.append(f'invalid-rfc path writes {sorted(set(wr) - PERCALL)}')
            else:
                # backend failure (idnkit): the previously confirmed mode must stay in force
                bad = [f for f in wr if f in DERIVED]
                if bad: w2.append(f'failed setup (returns {rv}) has already overwritten {bad}: the previously confirmed mode is lost')
        r2.instance(f'{key}:eav_setup', ok=not w2, wclass='setup-derives', what='; '.join(sorted(set(w2))))
        # ---- eav_free / eav_init
        eng, fp = cfgpaths.summarise(tu, 'eav_free')
        w3 = []
        for p in fp:
            if p.passed('(eav == NULL)', True) or p.passed('eav', False) or p.passed('(eav != NULL)', False) or p.passed('(!eav)', True): continue      # a guard against a NULL object: nothing to release
            fr = [e for e in p.calls('eav_result_free')]
            s = p.last_set('eav->result')
            # either order: free(eav->result) then clear the field, or keep the old pointer, clear the field, free the old pointer
            before = len(fr) == 1 and s is not None and p.events.index(fr[0]) < p.index(lambda e: e is s)
            okf = len(fr) == 1 and s is not None and s[2] == 'NULL' and ((before and fr[0][2] == ('eav->result',)) or (not before and fr[0][2] == ('eav->result@pre',)))
            if not okf: w3.append('eav_free does not release result once and null the field')
        r3.instance(f'{key}:eav_free', ok=not w3 and bool(fp), wclass='free', what='; '.join(sorted(set(w3))))
        eng, ip = cfgpaths.summarise(tu, 'eav_init')
        init_fields = set.intersection(*[set(eavobj.writes(p)) for p in ip]) if ip else set()
        need = set()
        for fn in ('eav_is_email', 'eav_free', 'eav_setup'):
            ps = setup_paths(tu) if fn == 'eav_setup' else cfgpaths.summarise(tu, fn)[1]
            for p in ps: need |= set(eavobj.incoming_reads(p))
        e2, ep = cfgpaths.summarise(tus['src/eav.c'], 'eav_errstr')
        for p in ep: need |= set(eavobj.incoming_reads(p))
        miss = sorted(need - init_fields - {'rfc', 'allow_tld', 'tld_check'} - ({'idn'} if b == 'idnkit' else set()))
        r3.instance(f'{key}:eav_init', ok=not miss, wclass='init-fields', what=f'eav_init does not assign {miss}, which the other entry points read: after eav_free + eav_init the object is not fresh (and the first use reads an indeterminate value)')
        r3.instance(f'{key}:eav_init:defaults', ok={'rfc', 'allow_tld', 'tld_check'} <= init_fields, wclass='init-inputs', what='eav_init does not assign rfc / allow_tld / tld_check')
    e2, ep = cfgpaths.summarise(tus['src/eav.c'], 'eav_errstr')
    ck.analysed(units=['src/eav.c'], functions=['src/eav.c:eav_errstr'])
    w4 = []
    for p in ep:
        rd = set(eavobj.incoming_reads(p))
        if not rd <= {'errcode', 'idnmsg'}: w4.append(f'reads {sorted(rd)}')
        if eavobj.writes(p): w4.append('writes the object')
    r4.instance('src/eav.c:eav_errstr', ok=not w4, wclass='errstr', what='; '.join(w4))
    ck.assume('the callbacks are functions of their arguments only (no shared mutable state: C14)')
    ck.assume('idnkit: eav->idn is assigned by idn_resconf_create on the success path of init_idn (library behaviour)')
    ck.undecided('heap-level "exactly once" beyond path pairing (no alias of result is created: the pointer is stored in one field only)')
