"""C05 - address literals: only [IPv4] or [IPv6:addr], nothing trailing, family reported.
Structural rules over every expansion of check_ip (R5.1-R5.3, R5.6) and language rules for is_ipv4 / is_ipv6
(rules/iplang.py: extracted automata sandwiched between the RFC 5321 grammar and the RFC 4291 forms)."""
import re
import unitdb, cfgpaths
from rules import emailfn, shared
from report import AnalysisBroken

LEVEL = 'model_checking'


def _eval_atom(atom, subst):
    """evaluate a rendered comparison after substituting pointer symbols by integers (positions)"""
    s = atom
    for k, v in sorted(subst.items(), key=lambda kv: -len(kv[0])): s = s.replace(k, str(v))
    if not re.fullmatch(r'[\d\s()+\-<>=!]+', s): return None
    try: return bool(eval(s, {'__builtins__': {}}, {}))
    except Exception: return None


def run(ck):
    tus = emailfn.load()
    sums = emailfn.summaries(tus)
    r1 = ck.rule('R5.1', 'nothing trailing: every path that accepts a literal passes a test that the closing bracket is the last byte (bre + 1 == end)', 6)
    r2 = ck.rule('R5.2', 'tag: bytes skipped between "[" and the address are compared with the literal "IPv6:" (nothing else can be skipped)', 6)
    r3 = ck.rule('R5.3', 'family: is_ipv4 / is_ipv6 is set according to a validator (or test) that establishes that family on the path', 6)
    r6 = ck.rule('R5.6', 'a literal shorter than "[1.2.3.4]" is IPADDR_INVALID; a missing "]" is IPADDR_BRACKET_UNPAIR; a failed validator is IPADDR_INVALID', 6)
    for key, (eng, paths) in sorted(sums.items()):
        mode = re.search(r'is_(\d+)_email', key).group(1); site = f'{key}:is_{mode}_email:check_ip'
        ck.analysed(units=[key], functions=[site])
        w1 = []; w2 = []; w3 = []; w6 = []
        nlit = 0
        for p in paths:
            if emailfn.domain_branch(p) != 'literal': continue
            nlit += 1
            at = p.calls('strrchr')[0][3]
            brs = f'({at} + 1)'
            E = '(email + length)'
            bre_calls = [c for c in p.calls() if c[1] in ('strrchr', 'strchr', 'memchr', 'memrchr') and len(c[2]) >= 2 and c[2][1] == "']'"]
            rc = None
            for e in reversed(p.events):
                if e[0] == 'set' and e[1].endswith('->rc'): rc = e[2]; break
            fam = shared.literal_family(p)
            flags = [e[1].split('->')[-1] for e in p.sets() if e[1].split('->')[-1] in ('is_ipv4', 'is_ipv6') and e[2] == '1']
            # R5.6 rejected shapes
            if not bre_calls:
                if rc != '-EEAV_IPADDR_INVALID': w6.append(f'literal rejected before the bracket search with rc = {rc}')
                lim = [e for e in p.events if e[0] == 'cond' and e[1].startswith(f'(({E} - {brs})')]
                if lim:
                    # the shortest accepted literal must be at least "[1.2.3.4]" = 9 bytes; the test that rejects is the last one on the path
                    lim = lim[-1:]
                    m = re.fullmatch(re.escape(f'(({E} - {brs})') + r' (<=|<|>|>=) (\d+)\)', lim[0][1])
                    if m:
                        op, K = m.group(1), int(m.group(2))
                        rej = lambda d: {'<=': d <= K, '<': d < K, '>': d > K, '>=': d >= K}[op] == lim[0][2]
                        if not (rej(8) and not rej(9)): w6.append(f'minimum-length test {lim[0][1]} does not reject 8 bytes and admit 9')
                continue
            bre = bre_calls[0][3]
            # a search that starts at the '[' cannot return a pointer at or before it: a path that claims so is a guard that
            # never fires (the byte at brs is '[', the byte found is ']')
            if bre_calls[0][2][0] == brs and (p.passed(f'({bre} <= {brs})', True) or p.passed(f'({bre} < {brs})', True) or p.passed(f'({brs} >= {bre})', True) or p.passed(f'({brs} > {bre})', True)):
                continue
            if p.passed(bre, False) or p.passed(f'({bre} == NULL)', True) or p.passed(f'({bre} != NULL)', False):
                if rc != '-EEAV_IPADDR_BRACKET_UNPAIR': w6.append(f'missing "]" gives rc = {rc}')
                continue
            if not fam['valid']:
                if rc != '-EEAV_IPADDR_INVALID' or flags: w6.append(f'failed literal validation leaves rc = {rc}, flags {flags}')
                continue
            # accepted literal
            if rc not in ('EEAV_NO_ERROR', '0'): w6.append(f'accepted literal has rc = {rc}')
            # R5.1
            ok1 = False
            for e in p.events:
                if e[0] == 'cond' and bre in e[1] and E in e[1]:
                    good = _eval_atom(e[1], {bre: 10, E: 11}); bad1 = _eval_atom(e[1], {bre: 9, E: 11}); bad2 = _eval_atom(e[1], {bre: 5, E: 11})
                    if good is not None and good == e[2] and bad1 != e[2] and bad2 != e[2]: ok1 = True
            if not ok1: w1.append(f'literal accepted without relating the closing bracket {bre} to the end of the address')
            # R5.2
            V = [c for c in p.calls() if c[1] in ('is_ipaddr', 'is_ipv4', 'is_ipv6')][-1]
            vstart = V[2][0]
            vb, vo = shared.ptr_off(vstart)
            if vb != at: w2.append(f'validator starts at {vstart}, which is not derived from the "@" pointer'); vo = None
            if vo is not None and vo != 2:
                k = vo - 2                                                    # bytes skipped after "["
                tag_ok = False
                for c in p.calls():
                    if c[1] not in ('strncmp', 'strncasecmp', 'memcmp') or len(c[2]) != 3: continue
                    lit = [a for a in c[2][:2] if a.startswith('"')]
                    ptr = [a for a in c[2][:2] if not a.startswith('"')]
                    if not lit or not ptr or shared.ptr_off(ptr[0]) != (at, 2): continue
                    if lit[0][1:-1] == 'IPv6:' and c[2][2] == str(k) == '5' and p.passed(c[3], False): tag_ok = True
                if not tag_ok:
                    w2.append(f'validator starts {k} byte(s) after "[" ({vstart}) and those bytes are not compared with "IPv6:"')
            # R5.3
            if fam['family'] is None: w3.append(fam['why'])
            elif flags != [fam['family']]: w3.append(f'path establishes {fam["family"]} but sets {flags}')
        if nlit < 4: raise AnalysisBroken(f'{site}: only {nlit} literal paths found')
        r1.instance(site, ok=not w1, wclass='trailing-bytes', what='; '.join(sorted(set(w1))))
        r2.instance(site, ok=not w2, wclass='tag', what='; '.join(sorted(set(w2))))
        r3.instance(site, ok=not w3, wclass='family', what='; '.join(sorted(set(w3))))
        r6.instance(site, ok=not w6, wclass='reject-codes', what='; '.join(sorted(set(w6))))
    from rules import iplang
    iplang.run(ck)
    ck.assume('the address is NUL-terminated and length == strlen (statement); literals are validated in the bracket context the library uses (end of range = "]")')
