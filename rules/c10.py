"""C10 - IDN: U-label and A-label spellings treated identically (the repository's side only).
What the IDN library does to a U-label or an A-label is a fact about its binary and is NOT decided here.  Decided:
R10.1 after a successful conversion every backend applies to the converter output exactly the pipeline the ASCII
modes apply to their input (same callees, same order, same gate, same code mapping) - so, given a converter that maps
both spellings to the same A-label and leaves LDH ASCII unchanged, the decisions and classes coincide;
R10.2 the only verdicts is_utf8_domain adds are DOMAIN_EMPTY for an empty range and IDN_ERROR on the failure edge."""
import re
import cfgpaths
from rules import emailfn, eavobj
from rules.eavobj import CONVERTERS, BACKENDS
from rules.c04 import conv_output, out_end
from report import AnalysisBroken

LEVEL = 'other'
PIPE = ('is_ascii_domain', 'is_special_domain', 'strrchr', 'is_tld', 'strchr')


def trace(p, D, E, start_index, result):
    """canonical description of what one path does to the domain range [D, E) from event start_index on"""
    names = {}
    out = []
    def canon(s):
        for k, v in names.items(): s = s.replace(k, v)
        s = re.sub(r'(?<![\w#<])' + re.escape(E) + r'(?![\w#>])', 'E', s)
        s = re.sub(r'(?<![\w#<])' + re.escape(D) + r'(?![\w#>])', 'D', s)
        return s
    for e in p.events[start_index:]:
        if e[0] == 'call' and e[1] in PIPE:
            if e[1] in ('strrchr', 'strchr') and (len(e[2]) < 2 or e[2][1] != "'.'"): continue
            names[e[3]] = f'<{e[1]}>'
            out.append(('call', e[1], tuple(canon(a) for a in e[2])))
        elif e[0] == 'cond':
            a = canon(e[1])
            m = re.fullmatch(r'\((<\w+>) (==|!=) EEAV_NO_ERROR\)', a)
            if m: out.append(('zero?', m.group(1), e[2] == (m.group(2) == '=='))); continue
            m = re.fullmatch(r'\((<\w+>) >= 0\)', a)
            if m: continue                                   # caller-side test in is_6531_email
            if a == 'tld_check' or a.startswith('<'): out.append(('test', a, e[2]))
    r = canon(str(result))
    if ('zero?', r, True) in out: r = 'EEAV_NO_ERROR'          # the value is known to be 0 on this path
    if r == '0': r = 'EEAV_NO_ERROR'
    return tuple(out), r


def run(ck):
    r1 = ck.rule('R10.1', 'after a successful conversion is_utf8_domain treats the converter output exactly as the ASCII e-mail functions treat their domain: is_ascii_domain -> tld_check gate -> is_special_domain -> last dot -> is_tld, same verdict for every outcome', 3)
    r2 = ck.rule('R10.2', 'the only verdicts is_utf8_domain adds to that pipeline are -EEAV_DOMAIN_EMPTY (empty range) and -EEAV_IDN_ERROR (conversion failed)', 3)
    etus = emailfn.load(); sums = emailfn.summaries(etus)
    key = emailfn.ASCII['5321']
    eng, paths = sums[key]
    ck.analysed(units=[key], functions=[f'{key}:is_5321_email (host-name branch)'])
    ref = set()
    for p in paths:
        a = p.calls('is_ascii_domain')
        if not a: continue
        at = p.calls('strrchr')[0][3]
        rc = next((e[2] for e in reversed(p.events) if e[0] == 'set' and e[1].endswith('->rc')), None)
        ref.add(trace(p, f'({at} + 1)', '(email + length)', p.events.index(a[0]), rc))
    if len(ref) < 5: raise AnalysisBroken(f'only {len(ref)} host-name traces in {key}')
    utus = eavobj.load()
    for b in BACKENDS:
        k = f'partial/{b}/is_utf8_domain.c'
        eng, paths = cfgpaths.summarise(utus[k], 'is_utf8_domain')
        ck.analysed(units=[k], functions=[f'{k}:is_utf8_domain'])
        got = set(); extra = []
        for p in paths:
            conv = [c for c in p.calls() if c[1] in CONVERTERS]
            a = p.calls('is_ascii_domain')
            if not conv:
                empty = p.passed('(start == end)', True) or p.passed('(end == start)', True) or p.passed('(start != end)', False) or p.passed('(end != start)', False) or p.passed('((end - start) == 0)', True)
                if not (empty and p.ret()[1] == '-EEAV_DOMAIN_EMPTY'): extra.append(f'path without conversion returns {p.ret()[1]}')
                continue
            if not a:
                if p.ret()[1] != '-EEAV_IDN_ERROR': extra.append(f'path without is_ascii_domain returns {p.ret()[1]}')
                continue
            out = conv_output(conv[-1])          # the conversion whose output is used (a retry makes a second call)
            got.add(trace(p, out, out_end(p, out), p.events.index(a[0]), p.ret()[1]))
        only_ref = sorted(ref - got); only_got = sorted(got - ref)
        r1.instance(k + ':is_utf8_domain', ok=not only_ref and not only_got, wclass='pipeline-differs',
                    what=f'pipelines differ: only in the ASCII modes: {only_ref[:2]}; only in is_utf8_domain: {only_got[:2]}', detail={'ascii_only': only_ref, 'utf8_only': only_got})
        r2.instance(k + ':is_utf8_domain', ok=not extra, wclass='extra-verdict', what='; '.join(sorted(set(extra))))
    ck.sample({'reference_traces': len(ref), 'example': [list(map(str, t)) for t in sorted(ref)[:2]]})
    ck.undecided('that the IDN library maps a U-label and its A-label to the same string, rejects disallowed code points, enforces the hyphen rules and the 63-octet A-label limit: facts about the library binary, not about this repository')
    ck.assume('the configured converter is idempotent on LDH ASCII and maps U- and A-label spellings of an IDNA2008-valid domain to the same A-label')
