"""C15 - diagnostics are truthful.
Tables: errors[] has one non-empty message per EEAV_* code, and message i speaks about code i (keyword table written
from the enumerator names).  Paths (3 backends): YES <=> errcode NO_ERROR; rc < 0 => errcode = -rc; idnmsg is the
backend's message for result->idn_rc exactly when errcode is IDN_ERROR; eav_errstr; eav_setup return values and the
error it leaves behind.  Per-input truth (automaton products with monitors): each code a scanner can return implies
the condition it names (thorough tier adds the domain scanner and the option variants)."""
import re
import unitdb, cfgpaths, tables, astutil, scanex, forkmap
from scanex import END, NA, BAD
from rules import eavobj, lp, shared
from rules.eavobj import BACKENDS, STRERROR
from rules.c13 import setup_paths
from spec import localpart as LP
from report import AnalysisBroken
from astutil import where

LEVEL = 'other'

# code -> words that the message must contain (from the meaning of the enumerator's name)
KEYWORDS = {
    'EEAV_NO_ERROR': ['no error'], 'EEAV_INVALID_RFC': ['rfc'], 'EEAV_IDN_ERROR': ['idn'], 'EEAV_EMAIL_EMPTY': ['empty', 'email'],
    'EEAV_LPART_EMPTY': ['local', 'empty'], 'EEAV_LPART_TOO_LONG': ['local', 'too long'], 'EEAV_LPART_NOT_ASCII': ['local', 'ascii'],
    'EEAV_LPART_SPECIAL': ['local', 'special'], 'EEAV_LPART_CTRL_CHAR': ['local', 'control'], 'EEAV_LPART_MISPLACED_QUOTE': ['local', 'misplaced', 'quote'],
    'EEAV_LPART_UNQUOTED': ['local', 'open', 'quote'], 'EEAV_LPART_TOO_MANY_DOTS': ['local', 'too many dots'], 'EEAV_LPART_MISPLACED_DOT': ['local', 'misplaced dot'],
    'EEAV_LPART_UNQUOTED_FWS': ['local', 'unquoted'], 'EEAV_LPART_INVALID_FOLDING': ['local', 'folding'], 'EEAV_LPART_INVALID_UTF8': ['local', 'utf-8'],
    'EEAV_DOMAIN_EMPTY': ['domain', 'empty'], 'EEAV_DOMAIN_LABEL_TOO_LONG': ['domain', 'label', 'too long'], 'EEAV_DOMAIN_MISPLACED_HYPHEN': ['domain', 'hyphen'],
    'EEAV_DOMAIN_MISPLACED_DELIMITER': ['domain', 'delimiter'], 'EEAV_DOMAIN_INVALID_CHAR': ['domain', 'invalid char'], 'EEAV_DOMAIN_TOO_LONG': ['domain is too long'],
    'EEAV_DOMAIN_NUMERIC': ['domain', 'numeric'], 'EEAV_DOMAIN_NOT_FQDN': ['domain', 'fqdn'], 'EEAV_IPADDR_INVALID': ['ip', 'incorrect'],
    'EEAV_IPADDR_BRACKET_UNPAIR': ['ip', 'bracket'], 'EEAV_TLD_INVALID': ['invalid tld'], 'EEAV_TLD_NOT_ASSIGNED': ['not assigned'],
    'EEAV_TLD_COUNTRY_CODE': ['country'], 'EEAV_TLD_GENERIC': ['generic tld'], 'EEAV_TLD_GENERIC_RESTRICTED': ['generic-restricted'],
    'EEAV_TLD_INFRASTRUCTURE': ['infrastructure'], 'EEAV_TLD_SPONSORED': ['sponsored'], 'EEAV_TLD_TEST': ['test tld'], 'EEAV_TLD_SPECIAL': ['special tld'],
    'EEAV_TLD_RETIRED': ['retired'],
}
VALIDATORS = [('src/is_822_local.c', 'is_822_local'), ('src/is_5321_local.c', 'is_5321_local'), ('src/is_5322_local.c', 'is_5322_local'),
              ('src/is_6531_local.c', 'is_6531_local'), ('src/is_ascii_domain.c', 'is_ascii_domain'), ('src/is_tld.c', 'is_tld')]


def run(ck):
    us = [u for u in unitdb.units() if u.group != 'cli']
    all_tus = unitdb.load_asts(us)
    core = all_tus['src/eav.c']
    # ---------------- tables
    t1 = ck.rule('T15.1', 'errors[] has exactly EEAV_MAX non-empty messages and message i names the condition of code i', 30)
    var, rows = tables.global_table(core, 'errors')
    codes = None
    for names in core.enum_decls.values():
        if 'EEAV_NO_ERROR' in names and 'EEAV_MAX' in names: codes = names[:names.index('EEAV_MAX')]
    if codes is None: raise AnalysisBroken('EEAV_* enum not found')
    ck.analysed(units=['src/eav.c', 'include/eav.h'], functions=['src/eav.c:errors[]', 'src/eav.c:eav_errstr'])
    t1.instance('src/eav.c:errors[]:count', ok=(len(rows) == len(codes) == core.enums['EEAV_MAX']), wclass='count',
                what=f'errors[] has {len(rows)} initialisers for {len(codes)} codes (EEAV_MAX = {core.enums["EEAV_MAX"]}): a code without message makes eav_errstr return NULL')
    for i, code in enumerate(codes):
        msg = rows[i] if i < len(rows) else None
        kws = KEYWORDS.get(code)
        if kws is None:
            # a code this check has never seen: its message can only be held against its own name.  A non-empty message
            # that shares a word with the name is accepted; anything else cannot be judged here (exit 2, not an alarm)
            syn = {'lpart': ['local-part', 'local part'], 'ipaddr': ['ip'], 'ctrl': ['control'], 'char': ['character'], 'rfc': ['rfc'], 'idn': ['idn'], 'fqdn': ['fqdn', 'fully'], 'tld': ['tld']}
            toks = [t.lower() for t in code.split('_')[1:] if t.lower() not in ('is', 'has', 'no', 'not', 'of', 'the')]
            hit = msg and any(any(w in msg.lower() for w in syn.get(t, [t])) for t in toks)
            if not hit: raise AnalysisBroken(f'new error code {code} with message {msg!r}: C15 has no keywords for it and the message shares no word with the name; add it to the C15 table after reading the message')
            ck.notes.append(f'new error code {code}: message {msg!r} accepted on the strength of its name only (no truthfulness monitor uses it).')
            t1.instance(f'src/eav.c:errors[{code}]', ok=True); continue
        ok = isinstance(msg, str) and msg.strip() != '' and all(k in msg.lower() for k in kws)
        t1.instance(f'src/eav.c:errors[{code}]', ok=ok, wclass='message', detail={'message': msg, 'keywords': kws},
                    what=f'errors[{code}] = {msg!r} does not describe {code} (expected it to mention {kws})')
    # ---------------- validators return only 0 / -EEAV_x / documented positives
    t2 = ck.rule('T15.2', 'every return of a validator is 0, inverse(EEAV_<code>), a TLD class, YES/NO or another validator\'s result, so errcode = -rc is a valid index', 20)
    for key, fn in VALIDATORS + [(f'partial/{b}/is_utf8_domain.c', 'is_utf8_domain') for b in BACKENDS]:
        tu = all_tus[key]
        ck.analysed(units=[key], functions=[f'{key}:{fn}'])
        # every value a path of the validator can return (locals replaced by their values, loop-free static helpers of
        # the unit spliced in): judged once per distinct value
        eng, vpaths = cfgpaths.summarise(tu, fn)
        seen_v = {}
        for p in vpaths:
            r = p.ret()
            if r is None: continue
            seen_v.setdefault(str(r[1]), r[-1])
        for v, r in sorted(seen_v.items()):
            ok = v in ('0', '1', 'EEAV_NO_ERROR', 'TLD_TYPE_SPECIAL') or re.fullmatch(r'-EEAV_\w+', v) is not None or re.fullmatch(r"&?[\w@'#\[\]()+ ]+(->|\.)type", v) is not None \
                or re.fullmatch(r"(is_tld|is_ascii_domain|is_ipv4|is_ipv6|is_ipaddr|is_\d+_local)#\d+'*", v) is not None or re.fullmatch(r"-?\(.+ \? -?EEAV_\w+ : -?EEAV_\w+\)", v) is not None
            if ok and v.startswith('-EEAV_') and v[1:] not in codes: ok = False
            t2.instance(f'{key}:{fn}:return@{where(r)}' if not ok else f'{key}:{fn}', ok=ok, wclass='return-value', what=f'{fn} returns {v} at {where(r)}: not a code eav_errstr can describe')
    # ---------------- paths
    p1 = ck.rule('P15.1', 'eav_is_email returns 1 iff the last errcode assignment is EEAV_NO_ERROR; on rc < 0 errcode = -rc; idnmsg = <backend strerror>(result->idn_rc) exactly when errcode == EEAV_IDN_ERROR', 3)
    p2 = ck.rule('P15.2', 'eav_setup returns 0 on the four arms and EEAV_INVALID_RFC otherwise, and every non-zero return leaves errcode (and idnmsg for IDN errors) describing it, so that eav_errstr reports the failure', 3)
    p3 = ck.rule('P15.3', 'eav_errstr returns idnmsg for EEAV_IDN_ERROR and errors[errcode] otherwise', 1)
    for b in BACKENDS:
        key = f'partial/{b}/eav.c'; tu = all_tus[key]
        ck.analysed(units=[key], functions=[f'{key}:eav_is_email', f'{key}:eav_setup'])
        eng, paths = cfgpaths.summarise(tu, 'eav_is_email')
        w = []
        for p in paths:
            if p.events and p.events[-1][0] == 'abort': continue
            rv = p.ret()[1]; ec = p.last_set('eav->errcode')
            rs = p.last_set('eav->result'); rc = rs[2] + '->rc' if rs else '?'
            if ec is None: w.append('path returns without assigning errcode'); continue
            if (rv == '1') != (ec[2] == 'EEAV_NO_ERROR'): w.append(f'returns {rv} with errcode = {ec[2]}')
            if rv not in ('0', '1'): w.append(f'returns {rv}')
            if p.passed(f'({rc} < 0)', True):
                if ec[2] != f'-{rc}': w.append(f'rc < 0 but errcode = {ec[2]}')
                idn = p.passed(f'(-{rc} == EEAV_IDN_ERROR)', True)
                msg = p.last_set('eav->idnmsg')
                se = [c for c in p.calls(STRERROR[b])]
                if idn:
                    if not se or se[0][2] != (rs[2] + '->idn_rc',) or msg is None or msg[2] != se[0][3]: w.append('IDN error without idnmsg = strerror(result->idn_rc)')
                elif se or (msg is not None and msg[2] != 'NULL'): w.append('idnmsg set although the error is not an IDN error')
        p1.instance(f'{key}:eav_is_email', ok=not w, wclass='code-vs-return', what='; '.join(sorted(set(w))))
        w = []
        for p in setup_paths(tu):
            rv = p.ret()[1]; arm = [e[1] for e in p.events if e[0] == 'cond' and e[1].startswith('eav->rfc in [')][0]
            ec = p.last_set('eav->errcode')
            if '<default>' in arm:
                if rv != 'EEAV_INVALID_RFC': w.append(f'unknown rfc returns {rv}')
            elif rv not in ('EEAV_NO_ERROR', '0') and b != 'idnkit': w.append(f'{arm} returns {rv}')
            if rv not in ('EEAV_NO_ERROR', '0'):
                want = rv.lstrip('-')
                if ec is None or ec[2] != want: w.append(f'returns {rv} but leaves errcode {"untouched" if ec is None else "= " + ec[2]}: eav_errstr cannot report the failure')
                if want == 'EEAV_IDN_ERROR' and p.last_set('eav->idnmsg') is None: w.append('IDN failure without idnmsg')
        p2.instance(f'{key}:eav_setup', ok=not w, wclass='setup-error', what='; '.join(sorted(set(w))))
    eng, paths = cfgpaths.summarise(core, 'eav_errstr')
    w = []
    for p in paths:
        rv = p.ret()[1]
        if p.passed('(eav->errcode == EEAV_IDN_ERROR)', True):
            if rv != 'eav->idnmsg': w.append(f'IDN error returns {rv}')
        elif rv != 'errors[eav->errcode]': w.append(f'returns {rv}')
    p3.instance('src/eav.c:eav_errstr', ok=not w and len(paths) == 2, wclass='errstr', what='; '.join(w))
    # ---------------- monitors
    from rules import monitors
    monitors.run(ck, all_tus)
    ck.undecided('wording quality of the messages; that the IDN library\'s message matches its code (its table, its binary)')
    ck.assume('errcode values come only from the validators (T15.2) and the class switch (C08)')
