"""Shared facts about the eav_t entry points of the three backends (used by C13, C15, C18, C19, C06)."""
import re
import unitdb, cfgpaths
from report import AnalysisBroken

BACKENDS = ('idn2', 'idn', 'idnkit')
STRERROR = {'idn2': 'idn2_strerror', 'idn': 'idna_strerror', 'idnkit': 'idn_result_tostring'}
SUCCESS = {'idn2': 'IDN2_OK', 'idn': 'IDNA_SUCCESS', 'idnkit': 'idn_success'}
CONVERTERS = ('idn2_to_ascii_8z', 'idn2_lookup_ul', 'idna_to_ascii_lz', 'idna_to_ascii_8z', 'idn_res_encodename')
ENTRY = ('eav_init', 'eav_setup', 'eav_is_email', 'eav_free')


def load(options=None, variant='', extra_defs=()):
    us = [u for u in unitdb.units(options, variant, extra_defs) if u.group != 'cli']
    want = {f'partial/{b}/{f}' for b in BACKENDS for f in ('eav.c', 'is_utf8_domain.c', 'is_6531_email.c')} | {'src/eav.c'}
    tus = unitdb.load_asts([u for u in us if u.rel in want])
    return {k.split(':')[-1]: v for k, v in tus.items()}


def inline(paths, callee_paths, callee_name, enums=None):
    """splice the paths of a static callee into every caller path that calls it (cross product); the callee's return
    value replaces the call symbol in later events; combinations whose later branch decisions contradict the
    returned constant are dropped"""
    enums = enums or {}
    def val(tok):
        neg = tok.startswith('-'); t = tok[1:] if neg else tok
        if t in enums: return -enums[t] if neg else enums[t]
        try: return int(tok)
        except ValueError: return None
    out = []
    for p in paths:
        idx = [i for i, e in enumerate(p.events) if e[0] == 'call' and e[1] == callee_name]
        if not idx: out.append(p); continue
        i = idx[0]; sym = p.events[i][3]
        for q in callee_paths:
            r = p.copy()
            qe = [e for e in q.events if e[0] != 'return']
            rv = str(q.ret()[1]) if q.ret() else 'void'
            sub = lambda x: x.replace(sym, rv) if isinstance(x, str) else (tuple(sub(y) for y in x) if isinstance(x, tuple) else x)
            tail = []; feasible = True
            for e in p.events[i + 1:]:
                e2 = tuple(sub(x) if k > 0 else x for k, x in enumerate(e[:-1])) + (e[-1],) if e[0] != 'cond' else (e[0], sub(e[1]), e[2], e[3])
                if e2[0] == 'cond':
                    m = re.fullmatch(r'\((-?\w+) (==|!=) (-?\w+)\)', e2[1])
                    if m and val(m.group(1)) is not None and val(m.group(3)) is not None:
                        t = (val(m.group(1)) == val(m.group(3))) == (m.group(2) == '==')
                        if t != e2[2]: feasible = False; break
                        continue                       # decided by the callee's constant: not a branch any more
                    if val(e2[1]) is not None:
                        if (val(e2[1]) != 0) != e2[2]: feasible = False; break
                        continue
                tail.append(e2)
            if not feasible: continue
            r.events = p.events[:i + 1] + qe + tail
            out.append(r)
    return out


def event_values(e):
    """strings of an event in which a field may be *read*"""
    if e[0] == 'cond': return [e[1]]
    if e[0] == 'set': return [e[2]]
    if e[0] == 'call': return list(e[2]) + ([e[1]] if e[1].startswith('(*') else [])
    if e[0] == 'return': return [str(e[1])]
    return []


def incoming_reads(p, obj='eav'):
    """fields of *obj whose value on entry is read somewhere on the path -> {field: [contexts]}"""
    out = {}
    for e in p.events:
        for s in event_values(e):
            for m in re.finditer(re.escape(obj) + r'->(\w+)', s):
                out.setdefault(m.group(1), []).append((e[0], s))
        if e[0] == 'call' and e[1].startswith('(*'):
            out.setdefault(e[1][2:-1], []).append(('callee', e[1]))
    return out


def writes(p, obj='eav'):
    return [e[1][len(obj) + 2:] for e in p.sets() if e[1].startswith(obj + '->') and '->' not in e[1][len(obj) + 2:]]
