"""C20 - eav CLI: robust on any file, one verdict per line, agrees with the library.
Decided: robustness (R20.1 offset reads and every write into the static echo buffer are guarded; R20.2 no abort or
assert is reachable from main) and verdict structure (R20.3 exactly one PASS/FAIL per non-comment line, on the
library's decision for the trimmed view under eav_init defaults, FAIL followed by eav_errstr; R20.4 trimming order).
Declined: "a clean line is echoed unchanged" (a statement about sanitize_utf8's look-ahead copying loop over a static
decoder; listed in the evidence as not decided)."""
import re
import unitdb, cfgpaths, astutil
from report import AnalysisBroken
from astutil import where

LEVEL = 'other'


def reachable(tu, root):
    seen = set(); work = [root]
    while work:
        f = work.pop()
        if f in seen or f not in tu.functions: continue
        seen.add(f)
        for nm, c in astutil.calls_in(tu.functions[f]):
            if nm: work.append(nm)
    return seen


def run(ck):
    us = [u for u in unitdb.units() if u.group == 'cli']
    tus = unitdb.load_asts(us)
    if 'bin/main.c' not in tus: raise AnalysisBroken('bin/main.c is not built')
    tu = tus['bin/main.c']; dec = tus.get('bin/utf8_decode.c')
    ck.analysed(units=sorted(tus))
    reach = reachable(tu, 'main')
    for need in ('parse_file', 'sanitize_utf8'):
        if need not in reach: raise AnalysisBroken(f'{need} is not reachable from main any more: re-confirm the C20 anchors')
    # ---- R20.2
    r2 = ck.rule('R20.2', 'no abort / assert / exit is reachable from main in the tool (an input file can never kill it)', 3)
    for t, key in ((tu, 'bin/main.c'), (dec, 'bin/utf8_decode.c')):
        if t is None: continue
        for fname, f in t.own_functions().items():
            if key == 'bin/main.c' and fname not in reach: continue
            bad = [(nm, c) for nm, c in astutil.calls_in(f) if nm in cfgpaths.NORETURN]
            r2.instance(f'{key}:{fname}', ok=not bad, wclass='abort-site', what=f'{fname} can abort: ' + ', '.join(f'{nm} at {where(c)}' for nm, c in bad))
            ck.analysed(functions=[f'{key}:{fname}'])
    # ---- parse_file segments
    eng, paths = cfgpaths.summarise(tu, 'parse_file', again=False)
    segs = []
    for p in paths:
        i = p.index(lambda e: e[0] == 'loop' and e[1].endswith(':enter'))
        if i < 0: continue
        j = p.index(lambda e: e[0] == 'loop' and e[1].endswith(':backedge'))
        if j < 0: continue
        segs.append((p, i, j))
    if len(segs) < 20: raise AnalysisBroken(f'parse_file: only {len(segs)} loop iterations found')
    r1 = ck.rule('R20.1', 'parse_file: an access at index len - 1 of the trimmed view is dominated by len > 0; sanitize_utf8: every copy into the static echo buffer and every index into it is bounded below its size by a guard on the same quantities', 20)
    r3 = ck.rule('R20.3', 'every line read produces exactly one PASS/FAIL verdict unless it is a comment; the verdict is eav_is_email(eav, view, strlen(view)) on the trimmed view; FAIL is followed by eav_errstr(eav); main uses eav_init defaults and one eav_setup; the line buffer is freed and the file closed', 20)
    r4 = ck.rule('R20.4', 'trimming order: CRLF before LF terminator, then the comment test on the first byte, then one leading space, then one trailing blank (length and NUL store paired)', 20)
    for p, i, j in segs:
        ev = p.events[i:j]
        site = 'bin/main.c:parse_file'
        w1 = []; w3 = []; w4 = []
        # R20.1a
        for k, e in enumerate(ev):
            for s in ([e[1]] if e[0] in ('cond', 'set') else []):
                for m in re.finditer(r"\[\((strlen#\d+'*) - 1\)\]", s):
                    n = m.group(1)
                    ok = any(x[0] == 'cond' and ((x[1] in (f'({n} > 0)', f'({n} >= 1)', f'({n} != 0)', n) and x[2]) or (x[1] == f'({n} == 0)' and not x[2])) for x in ev[:k])
                    if not ok: w1.append(f'{s} read although the view may be empty (index -1)')
        r1.instance(site, ok=not w1, wclass='empty-view', what='; '.join(sorted(set(w1))[:2]))
        # verdicts
        fp = [e for e in ev if e[0] == 'call' and e[1] == 'fprintf' and len(e[2]) >= 2]
        verd = [e for e in fp if e[2][1].startswith('"PASS: ') or e[2][1].startswith('"FAIL: ')]
        comment = any(e[0] == 'cond' and re.fullmatch(r"\(.+\[0\] == '#'\)", e[1]) and e[2] for e in ev)
        ise = [e for e in ev if e[0] == 'call' and e[1] == 'eav_is_email']
        if comment:
            if verd or ise: w3.append('comment line gets a verdict')
        else:
            if len(verd) != 1: w3.append(f'{len(verd)} verdicts for one line')
            if len(ise) != 1: w3.append(f'eav_is_email called {len(ise)}x for one line')
            elif verd:
                c = ise[0]
                passed = p.passed(c[3], True)
                if passed != verd[0][2][1].startswith('"PASS'): w3.append('verdict text does not follow eav_is_email')
                if verd[0][2][0] != 'stdout': w3.append('verdict not on stdout')
                view, ln = c[2][1], c[2][2]
                sl = [e for e in ev if e[0] == 'call' and e[1] == 'strlen']
                from rules.shared import ptr_off
                B, k = ptr_off(view)
                S = None
                for e in sl:
                    b0, k0 = ptr_off(e[2][0])
                    if b0 == B: S = (e[3], k0)
                lead = [e for e in ev if e[0] == 'cond' and re.fullmatch(r"\(.+\[0\] == ' '\)", e[1])]
                if lead and k != (1 if lead[0][2] else 0): w3.append(f'the validated pointer {view} is not the trimmed view (leading space {"present" if lead[0][2] else "absent"})')
                su = [e for e in ev if e[0] == 'call' and e[1] == 'sanitize_utf8']
                if su and su[0][2][0] != view: w3.append(f'the echoed string {su[0][2][0]} is not the validated view {view}')
                if S is None: w3.append(f'length is not derived from strlen of the line buffer the view {view} points into')
                else:
                    sym, k0 = S
                    m = int_off(ln, sym)
                    trims = [e for e in ev if e[0] == 'cond' and re.search(r"== (' '|'\\x09')\)$", e[1]) and e[2] and sym in e[1]]
                    want = (k - k0) + (1 if trims else 0)
                    if m is None or m != want: w3.append(f'length argument {ln} is not strlen of the view {view} ({"after" if trims else "without"} trimming): off by {None if m is None else m - want}')
                    # the trailing-blank test and the NUL store must address the last byte of the view
                    for e in ev:
                        tgt = None
                        if e[0] == 'cond' and re.search(r"== (' '|'\\x09')\)$", e[1]) and sym in e[1]:
                            mm = re.match(r"\((.+)\[(.+)\] == ", e[1]); tgt = (mm.group(1), mm.group(2)) if mm else None
                        if e[0] == 'set' and e[2] == "'\\x00'" and sym in e[1]:
                            mm = re.fullmatch(r"(.+)\[(.+)\]", e[1]); tgt = (mm.group(1), mm.group(2)) if mm else None
                        if tgt:
                            tb, t = ptr_off(tgt[0]); q = int_off(tgt[1], sym)
                            if tb != B or q is None or (t - q - k0) != -1:
                                (w4 if e[0] == 'set' else w3).append(f'{"NUL store" if e[0] == "set" else "trailing-blank test"} {tgt[0]}[{tgt[1]}] does not address the last byte of the view {view}')
                    if trims and not any(e[0] == 'set' and e[2] == "'\\x00'" and sym in e[1] for e in ev): w4.append('length shortened without storing the NUL at the new end')
                if c[2][0] != 'eav': w3.append('validated with a different eav_t')
                if not passed:
                    es = [e for e in ev if e[0] == 'call' and e[1] == 'eav_errstr']
                    after = [e for e in fp if es and es[0][3] in e[2] and ev.index(e) > ev.index(verd[0])]
                    if not es or not after: w3.append('FAIL verdict without the library message after it')
        r3.instance(site, ok=not w3, wclass='verdict', what='; '.join(sorted(set(w3))[:3]), detail=[t[:120] for t in p.text()[i - 0:j][:40]] if w3 else None)
        # R20.4 order
        def idx(pred):
            for k, e in enumerate(ev):
                if pred(e): return k
            return None
        i_crlf = idx(lambda e: e[0] == 'call' and e[1] == 'memcmp' and '"\\r\\n"' in e[2])
        i_lf = idx(lambda e: e[0] == 'cond' and "== '\\x0a')" in e[1])
        i_cm = idx(lambda e: e[0] == 'cond' and re.fullmatch(r"\(.+\[0\] == '#'\)", e[1]) is not None)
        i_sp = idx(lambda e: e[0] == 'cond' and re.fullmatch(r"\(.+\[0\] == ' '\)", e[1]) is not None)
        i_tr = idx(lambda e: e[0] == 'cond' and re.search(r"\[\(strlen#\d+'* - 1\)\] == ' '\)", e[1]) is not None)
        if i_cm is None: w4.append('no comment test')
        if i_crlf is not None and i_lf is not None and i_crlf > i_lf: w4.append('LF stripped before CRLF is looked for')
        if i_cm is not None and ((i_lf is not None and i_lf > i_cm) or (i_crlf is not None and i_crlf > i_cm)): w4.append('comment test before the terminator is removed')
        if i_sp is not None and i_cm is not None and i_sp < i_cm: w4.append('leading space removed before the comment test')
        if i_tr is not None and i_sp is not None and i_tr < i_sp: w4.append('trailing blank removed before the leading space')
        if not comment and i_sp is None: w4.append('no leading-space test')
        # the terminator store must hit the last byte(s) read
        for e in ev:
            if e[0] == 'set' and re.fullmatch(r".+\[\(getline#\d+'* - [12]\)\]", e[1]) and e[2] != "'\\x00'": w4.append(f'{e[1]} := {e[2]}')
        r4.instance(site, ok=not w4, wclass='trimming', what='; '.join(sorted(set(w4))[:3]))
    # resources of parse_file / main
    w = []
    for p in paths:
        if p.passed('fopen#1', False):
            if p.calls('getline') or p.calls('fclose'): w.append('uses the file although fopen failed')
            continue
        if not p.calls('fclose') or p.calls('fclose')[0][2] != ('fopen#1',): w.append('file not closed')
        fr = p.calls('free')
        if len(fr) > 1: w.append('line freed twice')
        if fr and not re.fullmatch(r"line(@getline#\d+'*)?", fr[0][2][0]): w.append(f'frees {fr[0][2]}')
        if not fr and not any(e[0] == 'cond' and re.fullmatch(r"line(@getline#\d+'*)?", e[1]) and not e[2] for e in p.events): w.append('line buffer neither freed nor known NULL')
    r3.instance('bin/main.c:parse_file:resources', ok=not w, wclass='resources', what='; '.join(sorted(set(w))))
    eng, mp = cfgpaths.summarise(tu, 'main')
    w = []
    for p in mp:
        calls = [c[1] for c in p.calls() if c[1].startswith('eav_') or c[1] == 'parse_file']
        if 'parse_file' in calls:
            if calls[:2] != ['eav_init', 'eav_setup'] or calls.count('eav_setup') != 1 or calls[-1] != 'eav_free': w.append(f'call order {calls}')
            if not p.passed('(eav_setup#1 != EEAV_NO_ERROR)', False): w.append('files processed although eav_setup failed')
        if any(e[0] == 'set' and re.match(r"eav(@[\w#']+)?\.", e[1]) for e in p.events): w.append('main changes eav_init defaults')
        for c in p.calls('parse_file'):
            if c[2][1] != '&eav': w.append('parse_file gets a different eav_t')
    r3.instance('bin/main.c:main', ok=not w, wclass='main', what='; '.join(sorted(set(w))))
    ck.analysed(functions=['bin/main.c:main', 'bin/main.c:parse_file', 'bin/main.c:sanitize_utf8'])
    # ---- R20.1b sanitize_utf8 buffer
    eng, sp = cfgpaths.summarise(tu, 'sanitize_utf8')
    size = None
    for d in astutil.find(tu.fn('sanitize_utf8'), 'VarDecl'):
        if d['name'] == 'sanitized':
            m = re.fullmatch(r'char\[(\d+)\]', d['type']['qualType']); size = int(m.group(1)) if m else None
    if size is None: raise AnalysisBroken('static echo buffer `sanitized` not found')
    bad = {}; n = 0
    for p in sp:
        for k, e in enumerate(p.events):
            if e[0] == 'call' and e[1] == 'memcpy' and e[2][0].startswith('(sanitized + '):
                n += 1
                pos = e[2][0][len('(sanitized + '):-1]; L = e[2][2]
                if not guard(p, k, pos, L, size): bad.setdefault(f'memcpy({e[2][0]}, ..., {L}) is not dominated by a guard (pos + {L}) < {size}', where(e[4]))
            if e[0] == 'set' and e[1] == 'pos' and e[2] != '0':
                n += 1
                m = re.fullmatch(r'\((.+) \+ (.+)\)', e[2])
                if not (m and guard(p, k, m.group(1), m.group(2), size)): bad.setdefault(f'pos := {e[2]} is not known to stay below {size}', where(e[3]))
            if e[0] == 'set' and e[1].startswith('sanitized['):
                n += 1
                ix = e[1][len('sanitized['):-1]
                if not (ix == '0' or re.fullmatch(r"pos@L\d+'*", ix) or pos_bounded(p, k, ix, size)): bad.setdefault(f'{e[1]} := ...: index not known to be below {size}', where(e[3]))
            if e[0] == 'call' and e[1] == 'sprintf':
                n += 1
                if e[2][1] != '"0x%02x"' or e[2][0] != 'buf': bad.setdefault(f'sprintf({", ".join(e[2])}): unbounded formatted write', where(e[4]))
    for why, at in bad.items(): r1.instance('bin/main.c:sanitize_utf8', ok=False, wclass='echo-buffer:' + why.split('(')[0][:20], what=f'{why} ({at})')
    for _ in range(max(n - len(bad), 0)): r1.instance('bin/main.c:sanitize_utf8', ok=True)
    if n < 10: raise AnalysisBroken('sanitize_utf8: buffer writes not found')
    # ---- R20.7 getline's contract: (*lineptr, *n) are the buffer and its allocated size, owned by getline between calls
    r7 = ck.rule('R20.7', 'parse_file: the pointer and the capacity handed to getline (&line, &n) start as NULL / 0 and are written by nothing but getline (a capacity of 0 with a live buffer makes getline allocate a new one and leak the old)', 2)
    pf = tu.fn('parse_file')
    gl = [c for nm, c in astutil.calls_in(pf) if nm == 'getline']
    if not gl: raise AnalysisBroken('parse_file: no getline call')
    def addr_var(arg):
        a = astutil.strip(arg)
        if a.get('kind') == 'UnaryOperator' and a.get('opcode') == '&':
            b = astutil.strip(a['inner'][0])
            if b.get('kind') == 'DeclRefExpr': return b['referencedDecl']['name']
        return None
    for c in gl:
        args = c['inner'][1:]
        lv, nv = addr_var(args[0]), addr_var(args[1])
        if lv is None or nv is None: raise AnalysisBroken(f'getline arguments are not &variable at {where(c)}')
        for var, what0 in ((nv, 'capacity'), (lv, 'buffer pointer')):
            writes = []
            for n in astutil.walk(pf):
                k = n.get('kind')
                tgt = None
                if k in ('BinaryOperator', 'CompoundAssignOperator') and (n.get('opcode') == '=' or k == 'CompoundAssignOperator'): tgt = astutil.strip(n['inner'][0])
                if k == 'UnaryOperator' and n.get('opcode') in ('++', '--'): tgt = astutil.strip(n['inner'][0])
                if tgt is not None and tgt.get('kind') == 'DeclRefExpr' and tgt['referencedDecl']['name'] == var: writes.append(where(n))
            init_ok = False
            for d in astutil.find(pf, 'VarDecl'):
                if d['name'] == var:
                    ini = [x for x in d.get('inner', []) if 'Comment' not in x.get('kind', '')]
                    lits = [m for m in astutil.walk(ini[0])] if ini else []
                    init_ok = bool(ini) and any(m.get('kind') == 'IntegerLiteral' and m.get('value') == '0' for m in lits)
            r7.instance(f'bin/main.c:parse_file:getline:{what0}', ok=not writes and init_ok, wclass='getline-' + what0.split()[0],
                        what=f'the {what0} variable {var} handed to getline is ' + (f'also written at {", ".join(writes)}' if writes else 'not initialised to 0 / NULL'))
    # ---- R20.5 the tool's own decoder (a copy of src/utf8_decode.c with a static cursor) - the echo clause needs it to
    # accept every well-formed sequence and to report the byte index of each character
    if dec is None: raise AnalysisBroken('bin/utf8_decode.c is not built')
    from rules import decoder
    decoder.run(ck, dec, site='bin/utf8_decode.c:utf8_decode_next', ids=('R20.5a', 'R20.5b', 'R20.5c'), fld='')
    ck.undecided('echo clause: that a well-formed line without control characters is echoed unchanged (sanitize_utf8\'s look-ahead copy loop over the static decoder is not extracted); stdio/getline behaviour')
    ck.assume('getline returns a NUL-terminated buffer of `read` bytes; files are processed from the last argument to the first (the statement quantifies over single files)')
    ck.notes.append('bin/main.h also defines sanitize(), which has an unbounded static buffer but is not reachable from main (used by tests only): out of scope.')


def int_off(expr, sym):
    """expr == sym - m  (m >= 0, nested subtractions of constants allowed)  ->  m, else None"""
    m = 0; e = expr
    while True:
        if e == sym: return m
        g = re.fullmatch(r'\((.+) - (\d+)\)', e)
        if not g: return None
        m += int(g.group(2)); e = g.group(1)


def guard(p, k, pos, L, size):
    """a branch before event k that the path left on the side where  pos + K < size  with K >= L"""
    if pos.isdigit() and re.fullmatch(r"strlen#\d+'*", L):
        # constant position: the guard was folded away by the analyser; decide it here
        w = hex_width(p, k)
        if w is not None: return int(pos) + w < size
    for e in reversed(p.events[:k]):
        if e[0] == 'set' and e[1] == 'pos': break
        if e[0] != 'cond': continue
        m = re.fullmatch(r'\(\(' + re.escape(pos) + r' \+ (.+)\) (>=|>|<|<=) (\d+)\)', e[1])
        if not m: continue
        K, op, S = m.group(1), m.group(2), int(m.group(3))
        bound_ok = (op == '>=' and not e[2] and S <= size) or (op == '>' and not e[2] and S < size) or (op == '<' and e[2] and S <= size) or (op == '<=' and e[2] and S < size)
        if not bound_ok: continue
        if K == L: return True
        if K.isdigit() and re.fullmatch(r"strlen#\d+'*", L):
            # L = strlen(buf) right after sprintf(buf, "0x%02x", c): 4 characters for c in 0..255, 10 for a negative int
            w = hex_width(p, k)
            if w is not None and int(K) >= w: return True
    return False


def hex_width(p, k):
    """number of characters the last sprintf(buf, "0x%02x", c) before event k can produce: 4 when c is known to be in
    0..255 on this path (c < 32 or c == 127 taken AND c not negative), 10 otherwise (%x prints a negative int as eight
    hex digits); None if there is no such sprintf"""
    sp = [x for x in p.events[:k] if x[0] == 'call' and x[1] == 'sprintf' and x[2][:2] == ('buf', '"0x%02x"')]
    if not sp: return None
    c = sp[-1][2][2]
    before = p.events[:p.events.index(sp[-1])]
    small = any(x[0] == 'cond' and x[2] and x[1] in (f'({c} < 32)', f'({c} == 127)') for x in before)
    nonneg = (any(x[0] == 'cond' and x[2] and x[1] in (f'({c} > 0)', f'({c} >= 0)', f'({c} == 127)') for x in before)
              or any(x[0] == 'cond' and not x[2] and x[1] in (f'({c} < 0)', f'({c} <= 0)') for x in before))
    return 4 if (small and nonneg) else 10


def pos_bounded(p, k, ix, size):
    if ix.isdigit(): return int(ix) < size
    m = re.fullmatch(r'\((.+) \+ (.+)\)', ix)
    if m:
        # the index is the position after a guarded copy: find the assignment pos := ix and check its guard
        for j in range(k - 1, -1, -1):
            e = p.events[j]
            if e[0] == 'set' and e[1] == 'pos' and e[2] == ix: return guard(p, j, m.group(1), m.group(2), size)
    return False
