"""C20 - eav CLI: robust on any file, one verdict per line, agrees with the library, clean lines echoed unchanged.
R20.1 offset reads guarded; every write into the echo buffer guarded against the buffer's capacity (EchoBuffer model:
      static array, or static pointer/capacity pair grown by a NULL-tested realloc); escape width sign-aware
R20.2 no abort / assert reachable from main
R20.3 exactly one PASS/FAIL per non-comment line, on the library's decision for the trimmed view under eav_init
      defaults, followed by the echo of that view; FAIL followed by eav_errstr
R20.4 trimming order
R20.5 the tool's own decoder accepts exactly RFC 3629 and reports character offsets (rules/decoder.py on bin/utf8_decode.c)
R20.6 echo invariant of sanitize_utf8 on clean lines (rules/echo.py)
R20.7 getline's (pointer, capacity) variables are written by nothing else"""
import re
import unitdb, cfgpaths, astutil
from report import AnalysisBroken
from astutil import where

LEVEL = 'other'


def reachable(tu, root):
    seen = set(); work = [root]
    while work:
        f = work.pop()
        if f in seen or f not in tu.functions: continue
        seen.add(f)
        for nm, c in astutil.calls_in(tu.functions[f]):
            if nm: work.append(nm)
    return seen


def run(ck):
    us = [u for u in unitdb.units() if u.group == 'cli']
    tus = unitdb.load_asts(us)
    if 'bin/main.c' not in tus: raise AnalysisBroken('bin/main.c is not built')
    tu = tus['bin/main.c']; dec = tus.get('bin/utf8_decode.c')
    ck.analysed(units=sorted(tus))
    reach = reachable(tu, 'main')
    for need in ('parse_file', 'sanitize_utf8'):
        if need not in reach: raise AnalysisBroken(f'{need} is not reachable from main any more: re-confirm the C20 anchors')
    # ---- R20.2
    r2 = ck.rule('R20.2', 'no abort / assert / exit is reachable from main in the tool (an input file can never kill it)', 3)
    for t, key in ((tu, 'bin/main.c'), (dec, 'bin/utf8_decode.c')):
        if t is None: continue
        for fname, f in t.own_functions().items():
            if key == 'bin/main.c' and fname not in reach: continue
            bad = [(nm, c) for nm, c in astutil.calls_in(f) if nm in cfgpaths.NORETURN]
            r2.instance(f'{key}:{fname}', ok=not bad, wclass='abort-site', what=f'{fname} can abort: ' + ', '.join(f'{nm} at {where(c)}' for nm, c in bad))
            ck.analysed(functions=[f'{key}:{fname}'])
    # ---- parse_file segments
    eng, paths = cfgpaths.summarise(tu, 'parse_file', again=False)
    segs = []
    for p in paths:
        i = p.index(lambda e: e[0] == 'loop' and e[1].endswith(':enter'))
        if i < 0: continue
        j = p.index(lambda e: e[0] == 'loop' and e[1].endswith(':backedge'))
        if j < 0: continue
        segs.append((p, i, j))
    if len(segs) < 20: raise AnalysisBroken(f'parse_file: only {len(segs)} loop iterations found')
    r1 = ck.rule('R20.1', 'parse_file: an access at index len - 1 of the trimmed view is dominated by len > 0; sanitize_utf8: every copy into the static echo buffer and every index into it is bounded below its size by a guard on the same quantities', 20)
    r3 = ck.rule('R20.3', 'every line read produces exactly one PASS/FAIL verdict unless it is a comment; the verdict is eav_is_email(eav, view, strlen(view)) on the trimmed view; FAIL is followed by eav_errstr(eav); main uses eav_init defaults and one eav_setup; the line buffer is freed and the file closed', 20)
    r4 = ck.rule('R20.4', 'trimming order: CRLF before LF terminator, then the comment test on the first byte, then one leading space, then one trailing blank (length and NUL store paired)', 20)
    for p, i, j in segs:
        ev = p.events[i:j]
        site = 'bin/main.c:parse_file'
        w1 = []; w3 = []; w4 = []
        # R20.1a
        for k, e in enumerate(ev):
            for s in ([e[1]] if e[0] in ('cond', 'set') else []):
                for m in re.finditer(r"\[\((strlen#\d+'*) - 1\)\]", s):
                    n = m.group(1)
                    ok = any(x[0] == 'cond' and ((x[1] in (f'({n} > 0)', f'({n} >= 1)', f'({n} != 0)', n) and x[2]) or (x[1] == f'({n} == 0)' and not x[2])) for x in ev[:k])
                    if not ok: w1.append(f'{s} read although the view may be empty (index -1)')
        r1.instance(site, ok=not w1, wclass='empty-view', what='; '.join(sorted(set(w1))[:2]))
        # verdicts
        fp = [e for e in ev if e[0] == 'call' and e[1] == 'fprintf' and len(e[2]) >= 2]
        verd = [e for e in fp if e[2][1].startswith('"PASS: ') or e[2][1].startswith('"FAIL: ')]
        comment = any(e[0] == 'cond' and re.fullmatch(r"\(.+\[0\] == '#'\)", e[1]) and e[2] for e in ev)
        ise = [e for e in ev if e[0] == 'call' and e[1] == 'eav_is_email']
        if comment:
            if verd or ise: w3.append('comment line gets a verdict')
        else:
            if len(verd) != 1: w3.append(f'{len(verd)} verdicts for one line')
            if len(ise) != 1: w3.append(f'eav_is_email called {len(ise)}x for one line')
            elif verd:
                c = ise[0]
                passed = p.passed(c[3], True)
                if passed != verd[0][2][1].startswith('"PASS'): w3.append('verdict text does not follow eav_is_email')
                if verd[0][2][0] != 'stdout': w3.append('verdict not on stdout')
                view, ln = c[2][1], c[2][2]
                sl = [e for e in ev if e[0] == 'call' and e[1] == 'strlen']
                from rules.shared import ptr_off
                B, k = ptr_off(view)
                S = None
                for e in sl:
                    b0, k0 = ptr_off(e[2][0])
                    if b0 == B: S = (e[3], k0)
                lead = [e for e in ev if e[0] == 'cond' and re.fullmatch(r"\(.+\[0\] == ' '\)", e[1])]
                if lead and k != (1 if lead[0][2] else 0): w3.append(f'the validated pointer {view} is not the trimmed view (leading space {"present" if lead[0][2] else "absent"})')
                su = [e for e in ev if e[0] == 'call' and e[1] == 'sanitize_utf8']
                if su and su[0][2][0] != view: w3.append(f'the echoed string {su[0][2][0]} is not the validated view {view}')
                if su and su[0][2][1] != ln: w3.append(f'the echo is given length {su[0][2][1]}, the validated view has length {ln}')
                if not su or len(verd[0][2]) < 3 or verd[0][2][2] != su[0][3] or not re.fullmatch(r'"(PASS|FAIL): %s\\n"', verd[0][2][1]):
                    w3.append(f'the verdict line {verd[0][2][1:]} does not print the echo of the validated view after the verdict')
                if S is None: w3.append(f'length is not derived from strlen of the line buffer the view {view} points into')
                else:
                    sym, k0 = S
                    m = int_off(ln, sym)
                    trims = [e for e in ev if e[0] == 'cond' and re.search(r"== (' '|'\\x09')\)$", e[1]) and e[2] and sym in e[1]]
                    want = (k - k0) + (1 if trims else 0)
                    if m is None or m != want: w3.append(f'length argument {ln} is not strlen of the view {view} ({"after" if trims else "without"} trimming): off by {None if m is None else m - want}')
                    # the trailing-blank test and the NUL store must address the last byte of the view
                    for e in ev:
                        tgt = None
                        if e[0] == 'cond' and re.search(r"== (' '|'\\x09')\)$", e[1]) and sym in e[1]:
                            mm = re.match(r"\((.+)\[(.+)\] == ", e[1]); tgt = (mm.group(1), mm.group(2)) if mm else None
                        if e[0] == 'set' and e[2] == "'\\x00'" and sym in e[1]:
                            mm = re.fullmatch(r"(.+)\[(.+)\]", e[1]); tgt = (mm.group(1), mm.group(2)) if mm else None
                        if tgt:
                            tb, t = ptr_off(tgt[0]); q = int_off(tgt[1], sym)
                            if tb != B or q is None or (t - q - k0) != -1:
                                (w4 if e[0] == 'set' else w3).append(f'{"NUL store" if e[0] == "set" else "trailing-blank test"} {tgt[0]}[{tgt[1]}] does not address the last byte of the view {view}')
                    if trims and not any(e[0] == 'set' and e[2] == "'\\x00'" and sym in e[1] for e in ev): w4.append('length shortened without storing the NUL at the new end')
                if c[2][0] != 'eav': w3.append('validated with a different eav_t')
                if not passed:
                    es = [e for e in ev if e[0] == 'call' and e[1] == 'eav_errstr']
                    after = [e for e in fp if es and es[0][3] in e[2] and ev.index(e) > ev.index(verd[0])]
                    if not es or not after: w3.append('FAIL verdict without the library message after it')
        r3.instance(site, ok=not w3, wclass='verdict', what='; '.join(sorted(set(w3))[:3]), detail=[t[:120] for t in p.text()[i - 0:j][:40]] if w3 else None)
        # R20.4 order
        def idx(pred):
            for k, e in enumerate(ev):
                if pred(e): return k
            return None
        i_crlf = idx(lambda e: e[0] == 'call' and e[1] == 'memcmp' and '"\\r\\n"' in e[2])
        i_lf = idx(lambda e: e[0] == 'cond' and "== '\\x0a')" in e[1])
        i_cm = idx(lambda e: e[0] == 'cond' and re.fullmatch(r"\(.+\[0\] == '#'\)", e[1]) is not None)
        i_sp = idx(lambda e: e[0] == 'cond' and re.fullmatch(r"\(.+\[0\] == ' '\)", e[1]) is not None)
        i_tr = idx(lambda e: e[0] == 'cond' and re.search(r"\[\(strlen#\d+'* - 1\)\] == ' '\)", e[1]) is not None)
        if i_cm is None: w4.append('no comment test')
        if i_crlf is not None and i_lf is not None and i_crlf > i_lf: w4.append('LF stripped before CRLF is looked for')
        if i_cm is not None and ((i_lf is not None and i_lf > i_cm) or (i_crlf is not None and i_crlf > i_cm)): w4.append('comment test before the terminator is removed')
        if i_sp is not None and i_cm is not None and i_sp < i_cm: w4.append('leading space removed before the comment test')
        if i_tr is not None and i_sp is not None and i_tr < i_sp: w4.append('trailing blank removed before the leading space')
        if not comment and i_sp is None: w4.append('no leading-space test')
        # the terminator store must hit the last byte(s) read
        for e in ev:
            if e[0] == 'set' and re.fullmatch(r".+\[\(getline#\d+'* - [12]\)\]", e[1]) and e[2] != "'\\x00'": w4.append(f'{e[1]} := {e[2]}')
        r4.instance(site, ok=not w4, wclass='trimming', what='; '.join(sorted(set(w4))[:3]))
    # resources of parse_file / main
    w = []
    for p in paths:
        if not p.calls('fopen'): continue          # left before the file was opened (an argument guard): nothing to release
        if p.passed('fopen#1', False) or p.passed('(fopen#1 == NULL)', True) or p.passed('(fopen#1 != NULL)', False):
            if p.calls('getline') or p.calls('fclose'): w.append('uses the file although fopen failed')
            continue
        if not p.calls('fclose') or p.calls('fclose')[0][2] != ('fopen#1',): w.append('file not closed')
        fr = p.calls('free')
        if len(fr) > 1: w.append('line freed twice')
        if fr and not re.fullmatch(r"line(@getline#\d+'*)?", fr[0][2][0]): w.append(f'frees {fr[0][2]}')
        if not fr and not any(e[0] == 'cond' and re.fullmatch(r"line(@getline#\d+'*)?", e[1]) and not e[2] for e in p.events): w.append('line buffer neither freed nor known NULL')
    r3.instance('bin/main.c:parse_file:resources', ok=not w, wclass='resources', what='; '.join(sorted(set(w))))
    eng, mp = cfgpaths.summarise(tu, 'main')
    w = []
    for p in mp:
        calls = [c[1] for c in p.calls() if c[1].startswith('eav_') or c[1] == 'parse_file']
        if 'parse_file' in calls:
            if calls[:2] != ['eav_init', 'eav_setup'] or calls.count('eav_setup') != 1 or calls[-1] != 'eav_free': w.append(f'call order {calls}')
            if not p.passed('(eav_setup#1 != EEAV_NO_ERROR)', False): w.append('files processed although eav_setup failed')
        if any(e[0] == 'set' and re.match(r"eav(@[\w#']+)?\.", e[1]) for e in p.events): w.append('main changes eav_init defaults')
        for c in p.calls('parse_file'):
            if c[2][1] != '&eav': w.append('parse_file gets a different eav_t')
    r3.instance('bin/main.c:main', ok=not w, wclass='main', what='; '.join(sorted(set(w))))
    ck.analysed(functions=['bin/main.c:main', 'bin/main.c:parse_file', 'bin/main.c:sanitize_utf8'])
    # ---- R20.1b sanitize_utf8 buffer
    eng, sp = cfgpaths.summarise(tu, 'sanitize_utf8', open_paths=True)
    model = EchoBuffer(tu)
    bad = {}; n = 0
    for p in sp:
        bm = model.on_path(p)
        for why in bm['problems']: bad.setdefault(why, where(bm['at']) if bm['at'] else '?')
        if bm['buf'] is None: continue                 # allocation failed on this path: nothing may be written (checked by on_path)
        B, cap, lo = bm['buf'], bm['cap'], bm['min']
        for k, e in enumerate(p.events):
            if e[0] == 'call' and e[1] == 'memcpy' and e[2][0].startswith(f'({B} + '):
                n += 1
                pos = e[2][0][len(f'({B} + '):-1]; L = e[2][2]
                if not guard(p, k, pos, L, cap, lo): bad.setdefault(f'memcpy({e[2][0]}, ..., {L}) is not dominated by a guard (pos + {L}) < {cap}', where(e[4]))
            if e[0] == 'set' and e[1] == 'pos' and e[2] != '0':
                n += 1
                m = re.fullmatch(r'\((.+) \+ (.+)\)', e[2])
                if not (m and guard(p, k, m.group(1), m.group(2), cap, lo)): bad.setdefault(f'pos := {e[2]} is not known to stay below {cap}', where(e[3]))
            if e[0] == 'set' and e[1].startswith(f'{B}['):
                n += 1
                ix = e[1][len(f'{B}['):-1]
                if not ((ix == '0' and lo >= 1) or re.fullmatch(r"pos@L\d+'*", ix) or pos_bounded(p, k, ix, cap, lo)): bad.setdefault(f'{e[1]} := ...: index not known to be below {cap}', where(e[3]))
            if e[0] == 'call' and e[1] == 'sprintf':
                n += 1
                if e[2][1] != '"0x%02x"' or e[2][0] != 'buf': bad.setdefault(f'sprintf({", ".join(e[2])}): unbounded formatted write', where(e[4]))
            if e[0] == 'call' and e[1] == 'memcpy' and not e[2][0].startswith(f'({B} + ') and ('sanitized' in e[2][0] or 'realloc' in e[2][0]):
                bad.setdefault(f'memcpy into {e[2][0]}, which is not the echo buffer of this path ({B})', where(e[4]))
    for why, at in bad.items(): r1.instance('bin/main.c:sanitize_utf8', ok=False, wclass='echo-buffer:' + why.split('(')[0][:20], what=f'{why} ({at})')
    for _ in range(max(n - len(bad), 0)): r1.instance('bin/main.c:sanitize_utf8', ok=True)
    if n < 10: raise AnalysisBroken('sanitize_utf8: buffer writes not found')
    ck.sample({'echo_buffer': model.describe()})
    # ---- R20.7 getline's contract: (*lineptr, *n) are the buffer and its allocated size, owned by getline between calls
    r7 = ck.rule('R20.7', 'parse_file: the pointer and the capacity handed to getline (&line, &n) start as NULL / 0 and are written by nothing but getline (a capacity of 0 with a live buffer makes getline allocate a new one and leak the old)', 2)
    pf = tu.fn('parse_file')
    gl = [c for nm, c in astutil.calls_in(pf) if nm == 'getline']
    if not gl: raise AnalysisBroken('parse_file: no getline call')
    def addr_var(arg):
        a = astutil.strip(arg)
        if a.get('kind') == 'UnaryOperator' and a.get('opcode') == '&':
            b = astutil.strip(a['inner'][0])
            if b.get('kind') == 'DeclRefExpr': return b['referencedDecl']['name']
        return None
    for c in gl:
        args = c['inner'][1:]
        lv, nv = addr_var(args[0]), addr_var(args[1])
        if lv is None or nv is None: raise AnalysisBroken(f'getline arguments are not &variable at {where(c)}')
        for var, what0 in ((nv, 'capacity'), (lv, 'buffer pointer')):
            writes = []
            for n in astutil.walk(pf):
                k = n.get('kind')
                tgt = None
                if k in ('BinaryOperator', 'CompoundAssignOperator') and (n.get('opcode') == '=' or k == 'CompoundAssignOperator'): tgt = astutil.strip(n['inner'][0])
                if k == 'UnaryOperator' and n.get('opcode') in ('++', '--'): tgt = astutil.strip(n['inner'][0])
                if tgt is not None and tgt.get('kind') == 'DeclRefExpr' and tgt['referencedDecl']['name'] == var: writes.append(where(n))
            init_ok = False
            for d in astutil.find(pf, 'VarDecl'):
                if d['name'] == var:
                    ini = [x for x in d.get('inner', []) if 'Comment' not in x.get('kind', '')]
                    lits = [m for m in astutil.walk(ini[0])] if ini else []
                    init_ok = bool(ini) and any(m.get('kind') == 'IntegerLiteral' and m.get('value') == '0' for m in lits)
            r7.instance(f'bin/main.c:parse_file:getline:{what0}', ok=not writes and init_ok, wclass='getline-' + what0.split()[0],
                        what=f'the {what0} variable {var} handed to getline is ' + (f'also written at {", ".join(writes)}' if writes else 'not initialised to 0 / NULL'))
    # ---- R20.5 the tool's own decoder (a copy of src/utf8_decode.c with a static cursor) - the echo clause needs it to
    # accept every well-formed sequence and to report the byte index of each character
    if dec is None: raise AnalysisBroken('bin/utf8_decode.c is not built')
    from rules import decoder
    dsum = decoder.run(ck, dec, site='bin/utf8_decode.c:utf8_decode_next', ids=('R20.5a', 'R20.5b', 'R20.5c'), fld='', end_keeps_byte=True)
    # ---- R20.6 the echo clause
    from rules import echo
    echo.run(ck, tu, model, end_value=dsum.get('end'))
    # ---- R20.8 the tool defines functions the library defines too (its private decoder): inside the tool's process the
    # library's calls are bound to the TOOL's definitions.  The verdict is the library's decision only if that is harmless.
    r8 = ck.rule('R20.8', 'symbols defined by both the tool and the library (the tool\'s definition wins inside bin/eav): they are the decoder entry points only, both decoders agree on END / ERROR and on the language (R20.5, C03 O3.1), and - because the tool\'s versions ignore the state argument and keep one static cursor - every library caller uses exactly one decoder state per activation, passed by address and never copied, initialised before its first use', 3)
    lib_us = [u for u in unitdb.units() if u.group != 'cli']
    lib_tus = unitdb.load_asts(lib_us)
    def extern_defs(t):
        out = {}
        for nm, f in t.functions.items():
            if t.in_unit_file(f) and f.get('storageClass') != 'static': out[nm] = f
        return out
    tool_defs = {}
    for k, t in tus.items():
        for nm, f in extern_defs(t).items(): tool_defs[nm] = (k, f)
    lib_defs = {}
    for k, t in lib_tus.items():
        for nm, f in extern_defs(t).items(): lib_defs.setdefault(nm, (k, f))
    shared_syms = sorted(set(tool_defs) & set(lib_defs))
    ck.sample({'symbols_defined_by_tool_and_library': shared_syms})
    DEC = {'utf8_decode_init', 'utf8_decode_next', 'utf8_decode_at_byte', 'utf8_decode_at_character'}
    other = [x for x in shared_syms if x not in DEC]
    r8.instance('bin:interposed-symbols', ok=not other, wclass='interposition', what=f'the tool also defines {other}, which the library defines: the library\'s own calls are redirected to the tool\'s code')
    if shared_syms:
        # (a) same END / ERROR values
        from rules import decoder as _dec
        class _Quiet:
            def rule(self, *a, **k):
                class R:
                    def instance(self, *a, **k): pass
                return R()
            def analysed(self, **k): pass
            def sample(self, *a): pass
            def mc(self, *a): pass
        lsum = _dec.run(_Quiet(), lib_tus['src/utf8_decode.c'])
        r8.instance('bin/utf8_decode.c~src/utf8_decode.c', ok=(lsum == dsum), wclass='decoder-values', what=f'the two decoders report END/ERROR as {dsum} (tool) and {lsum} (library)')
        # (b) one state per activation in every library caller
        for k, t in sorted(lib_tus.items()):
            for fname, f in t.own_functions().items():
                if fname in DEC and k == lib_defs.get(fname, (None,))[0]: continue          # the library's own definitions
                calls = [(nm, c) for nm, c in astutil.calls_in(f) if nm in shared_syms]
                if not calls: continue
                ck.analysed(functions=[f'{k}:{fname}'])
                why = []
                states = set()
                for nm, c in calls:
                    args = c['inner'][1:]
                    if not args: why.append(f'{nm} called without a state argument'); continue
                    a = astutil.strip(args[-1])
                    if a.get('kind') == 'UnaryOperator' and a.get('opcode') == '&' and astutil.strip(a['inner'][0]).get('kind') == 'DeclRefExpr':
                        states.add(astutil.strip(a['inner'][0])['referencedDecl']['name'])
                    else: why.append(f'{nm} at {where(c)}: the state argument is not the address of a local variable')
                if len(states) > 1: why.append(f'uses {len(states)} decoder states ({sorted(states)}) in one activation: inside the tool they are one and the same static cursor')
                decls = [d for d in astutil.find(f, 'VarDecl') if 'utf8_decode_t' in d.get('type', {}).get('qualType', '') and '*' not in d['type']['qualType']]
                if len(decls) > 1: why.append(f'declares {len(decls)} decoder states ({[d["name"] for d in decls]})')
                for d in decls:
                    if [x for x in d.get('inner', []) if 'Comment' not in x.get('kind', '')]: why.append(f'decoder state {d["name"]} is initialised by copying another state ({where(d)})')
                for n in astutil.walk(f):
                    if n.get('kind') == 'BinaryOperator' and n.get('opcode') == '=' and 'utf8_decode_t' in n.get('type', {}).get('qualType', ''): why.append(f'a decoder state is assigned as a whole at {where(n)}')
                order = [nm for nm, c in sorted(calls, key=lambda x: (astutil.line_of(x[1]) or 0))]
                if order and order[0] != 'utf8_decode_init': why.append(f'first decoder call is {order[0]}, not utf8_decode_init (the static cursor still belongs to the tool\'s previous use)')
                r8.instance(f'{k}:{fname}', ok=not why, wclass='decoder-state', what=f'{fname}: ' + '; '.join(sorted(set(why))))
    ck.undecided('stdio/getline behaviour; what sanitize_utf8 prints for lines that are NOT clean (escapes, truncation of ill-formed lines) beyond memory safety')
    ck.assume('getline returns a NUL-terminated buffer of `read` bytes; files are processed from the last argument to the first (the statement quantifies over single files)')
    ck.notes.append('bin/main.h also defines sanitize(), which has an unbounded static buffer but is not reachable from main (used by tests only): out of scope.')


def int_off(expr, sym):
    """expr == sym - m  (m >= 0, nested subtractions of constants allowed)  ->  m, else None"""
    m = 0; e = expr
    while True:
        if e == sym: return m
        g = re.fullmatch(r'\((.+) - (\d+)\)', e)
        if not g: return None
        m += int(g.group(2)); e = g.group(1)


def guard(p, k, pos, L, cap, lo=None):
    """a branch before event k that the path left on the side where  pos + K < cap  with K >= L.  cap is the capacity of
    the echo buffer on this path: an integer (static array) or the rendered value of the capacity variable; lo is a
    constant the capacity is known not to be below"""
    if lo is None: lo = cap if isinstance(cap, int) else 0
    def fits(S, strict):
        """S (< or <=) cap ?"""
        if isinstance(cap, int): return S.isdigit() and (int(S) <= cap if not strict else int(S) < cap)
        return S == cap and not strict
    if pos.isdigit() and re.fullmatch(r"strlen#\d+'*", L):
        # constant position: decide it against the least capacity
        w = hex_width(p, k)
        if w is not None and int(pos) + w < lo: return True
    for e in reversed(p.events[:k]):
        if e[0] == 'set' and e[1] == 'pos': break
        if e[0] != 'cond': continue
        m = re.fullmatch(r'\(\(' + re.escape(pos) + r' \+ (.+)\) (>=|>|<|<=) (.+)\)', e[1])
        if not m: continue
        K, op, S = m.group(1), m.group(2), m.group(3)
        bound_ok = (op == '>=' and not e[2] and fits(S, False)) or (op == '>' and not e[2] and fits(S, True)) or (op == '<' and e[2] and fits(S, False)) or (op == '<=' and e[2] and fits(S, True))
        if not bound_ok: continue
        if K == L: return True
        if K.isdigit() and re.fullmatch(r"strlen#\d+'*", L):
            # L = strlen(buf) right after sprintf(buf, "0x%02x", c): 4 characters for c in 0..255, 10 for a negative int
            w = hex_width(p, k)
            if w is not None and int(K) >= w: return True
    return False


def hex_width(p, k):
    """number of characters the last sprintf(buf, "0x%02x", c) before event k can produce: 4 when c is known to be in
    0..255 on this path (c < 32 or c == 127 taken AND c not negative), 10 otherwise (%x prints a negative int as eight
    hex digits); None if there is no such sprintf"""
    sp = [x for x in p.events[:k] if x[0] == 'call' and x[1] == 'sprintf' and x[2][:2] == ('buf', '"0x%02x"')]
    if not sp: return None
    c = sp[-1][2][2]
    before = p.events[:p.events.index(sp[-1])]
    small = any(x[0] == 'cond' and x[2] and x[1] in (f'({c} < 32)', f'({c} == 127)') for x in before)
    nonneg = (any(x[0] == 'cond' and x[2] and x[1] in (f'({c} > 0)', f'({c} >= 0)', f'({c} == 127)') for x in before)
              or any(x[0] == 'cond' and not x[2] and x[1] in (f'({c} < 0)', f'({c} <= 0)') for x in before))
    return 4 if (small and nonneg) else 10


def pos_bounded(p, k, ix, cap, lo=None):
    if lo is None: lo = cap if isinstance(cap, int) else 0
    if ix.isdigit(): return int(ix) < lo
    m = re.fullmatch(r'\((.+) \+ (.+)\)', ix)
    if m:
        # the index is the position after a guarded copy: find the assignment pos := ix and check its guard
        for j in range(k - 1, -1, -1):
            e = p.events[j]
            if e[0] == 'set' and e[1] == 'pos' and e[2] == ix: return guard(p, j, m.group(1), m.group(2), cap, lo)
    return False


class EchoBuffer:
    """what `sanitized` is on a path of sanitize_utf8, and how many bytes it has.
    static array  char sanitized[N]           -> ('sanitized', N, N)
    static pointer grown on demand            -> (realloc#k, NEED, c) after  if (NEED > cap) { g = realloc(sanitized, NEED);
                                                 if (!g) return ...; sanitized = g; cap = NEED; },
                                                 ('sanitized@static', 'cap@static', c) on the path where NEED <= cap,
    c being the constant term of NEED = a*length + c (length is unsigned).  The pair invariant "sanitized has cap bytes"
    holds initially (NULL, 0) and is preserved iff pointer and capacity are only ever assigned together, from a successful
    realloc of exactly the stored size; the rule checks that on every path."""
    def __init__(self, tu):
        self.kind = None; self.size = None; self.capvar = None
        for d in astutil.find(tu.fn('sanitize_utf8'), 'VarDecl'):
            if d['name'] == 'sanitized':
                t = d['type']['qualType']
                m = re.fullmatch(r'char\[(\d+)\]', t)
                if m: self.kind = 'array'; self.size = int(m.group(1))
                elif re.fullmatch(r'char \*', t) and d.get('storageClass') == 'static':
                    self.kind = 'pointer'
                    ini = [x for x in d.get('inner', []) if 'Comment' not in x.get('kind', '')]
                    self.ptr_init_null = bool(ini) and not any(m_.get('kind') in ('DeclRefExpr', 'CallExpr') for m_ in astutil.walk(ini[0]))
        if self.kind is None: raise AnalysisBroken('echo buffer `sanitized` (static array or static pointer) not found in sanitize_utf8')
        self.tu = tu

    def describe(self):
        return {'kind': self.kind, 'size': self.size, 'capacity_variable': self.capvar}

    def on_path(self, p):
        if self.kind == 'array': return {'buf': 'sanitized', 'cap': self.size, 'min': self.size, 'problems': [], 'at': None}
        probs = []; at = None
        sets = [e for e in p.events if e[0] == 'set' and e[1] == 'sanitized']
        rl = [e for e in p.events if e[0] == 'call' and e[1] == 'realloc']
        if len(sets) > 1 or len(rl) > 1: return {'buf': None, 'cap': None, 'min': 0, 'problems': ['the echo buffer is reallocated / assigned more than once on a path'], 'at': (sets or rl)[0][-1]}
        # the growth test
        # the growth test is the first comparison with the capacity, before the decoder is started:  NEED > cap  or  cap < NEED
        ini = next((k for k, e in enumerate(p.events) if e[0] == 'call' and e[1] == 'utf8_decode_init'), len(p.events))
        t = None
        for e in p.events[:ini]:
            if e[0] != 'cond': continue
            mt = re.fullmatch(r"\((.+) (>|>=) (\w+)@static\)", e[1])
            if mt: t = e; need, op, capvar = mt.group(1), mt.group(2), mt.group(3); break
            mt = re.fullmatch(r"\((\w+)@static (<|<=) (.+)\)", e[1])
            if mt: t = e; need, op, capvar = mt.group(3), {'<': '>', '<=': '>='}[mt.group(2)], mt.group(1); break
        if t is None: return {'buf': None, 'cap': None, 'min': 0, 'problems': ['no growth test  NEED > capacity  before the echo buffer is used'], 'at': None}
        if self.capvar is None:
            d = [x for x in astutil.find(self.tu.fn('sanitize_utf8'), 'VarDecl') if x['name'] == capvar]
            if not d or d[0].get('storageClass') != 'static': raise AnalysisBroken(f'echo buffer: the capacity variable {capvar} is not a static local')
            ini = [x for x in d[0].get('inner', []) if 'Comment' not in x.get('kind', '')]
            if not (ini and any(m_.get('kind') == 'IntegerLiteral' and m_.get('value') == '0' for m_ in astutil.walk(ini[0]))) or not getattr(self, 'ptr_init_null', False):
                probs.append('the (pointer, capacity) pair does not start as (NULL, 0)')
            self.capvar = capvar
        elif capvar != self.capvar: probs.append(f'growth test on {capvar}, capacity variable is {self.capvar}')
        lo = const_term(need, self.tu.params('sanitize_utf8')[1])
        if lo is None: raise AnalysisBroken(f'echo buffer: the requested size {need} is not a*length + c')
        capsets = [e for e in p.events if e[0] == 'set' and e[1] == capvar]
        if t[2]:        # growth branch
            if not rl or rl[0][2] != ('sanitized@static', need):
                probs.append(f'growth branch does not realloc(sanitized, {need})'); at = t[-1]
                return {'buf': None, 'cap': None, 'min': 0, 'problems': probs, 'at': at}
            r = rl[0][3]
            ok_branch = p.passed(r, True) or p.passed(f'({r} == NULL)', False) or p.passed(f'({r} != NULL)', True)
            if not ok_branch:
                # allocation failed (or untested): nothing may be stored or written through the buffer afterwards
                i = p.events.index(rl[0])
                if sets or capsets or any(e[0] == 'call' and e[1] in ('memcpy', 'sprintf') for e in p.events[i:]) or any(e[0] == 'set' and '[' in e[1] for e in p.events[i:]):
                    probs.append('the result of realloc is used without a NULL test'); at = rl[0][-1]
                return {'buf': None, 'cap': None, 'min': 0, 'problems': probs, 'at': at}
            if not sets or sets[0][2] != r: probs.append('successful realloc is not stored in sanitized'); at = rl[0][-1]
            if len(capsets) != 1 or capsets[0][2] != need: probs.append(f'{capvar} is not set to the reallocated size {need}'); at = rl[0][-1]
            return {'buf': r, 'cap': need, 'min': lo, 'problems': probs, 'at': at}
        # no growth:  NEED <= capacity  (for `>`), so the old buffer has at least NEED >= lo bytes
        if rl or sets or capsets: probs.append('buffer or capacity changed although the growth test failed'); at = (rl or sets or capsets)[0][-1]
        if op != '>': lo = max(lo - 1, 0)
        return {'buf': 'sanitized@static', 'cap': f'{capvar}@static', 'min': lo, 'problems': probs, 'at': at}


def const_term(expr, length):
    """expr = a*length + c with a >= 0, c >= 0 (rendered with parentheses)  ->  c, else None"""
    from rules.echo import lin_parse
    try: v = lin_parse(expr, {length: {'LEN': 1}})
    except (KeyError, ValueError): return None
    if not set(v) <= {'LEN', ''} or v.get('LEN', 0) < 0 or v.get('', 0) < 0: return None
    return v.get('', 0)
