"""C19 - IDN-library failures are contained: rejected with its message, no leak.
The fault-sequence quantifier reduces to the failure edge of the conversion call (one CFG edge per backend) plus the
per-call reset facts of C13: rules on every path of is_utf8_domain, is_6531_email and eav_is_email in each backend."""
import re
import cfgpaths
from rules import eavobj, emailfn
from rules.eavobj import BACKENDS, STRERROR, SUCCESS, CONVERTERS
from rules.c04 import conv_output
from report import AnalysisBroken

LEVEL = 'other'


def run(ck):
    tus = eavobj.load()
    r1 = ck.rule('R19.1', 'the failure test after the conversion is the complement of the success constant, so every other return code (allocation failure included) takes the failure edge', 3)
    r2 = ck.rule('R19.2', 'on the failure edge: return -EEAV_IDN_ERROR, *r holds the library code, none of is_ascii_domain / is_special_domain / is_tld / strlen runs, and the output buffer is freed iff non-NULL, once', 3)
    r2b = ck.rule('R19.2b', 'on every path: the output buffer is NULL-initialised before the call, freed at most once and exactly once when non-NULL, and not used after the free', 3)
    r3 = ck.rule('R19.3', 'callers: is_6531_email hands &result->idn_rc to is_utf8_domain and sets is_domain only for rc >= 0; eav_is_email takes the message from result->idn_rc with the backend\'s strerror and the next call resets it', 6)
    for b in BACKENDS:
        key = f'partial/{b}/is_utf8_domain.c'; tu = tus[key]
        ck.analysed(units=[key], functions=[f'{key}:is_utf8_domain'])
        eng, paths = cfgpaths.summarise(tu, 'is_utf8_domain')
        w1 = []; w2 = []; w2b = []
        nfail = 0
        for p in paths:
            conv = [c for c in p.calls() if c[1] in CONVERTERS]
            if not conv: continue
            if len(conv) != 1: w1.append('more than one conversion call on a path'); continue
            c = conv[0]; i = p.events.index(c)
            tests = [e for e in p.events[i:] if e[0] == 'cond' and c[3] in e[1]]
            if not tests or tests[0][1] not in (f'({c[3]} != {SUCCESS[b]})', f'({c[3]} == {SUCCESS[b]})'):
                w1.append(f'result of {c[1]} is tested as {tests[0][1] if tests else "nothing"} (want != {SUCCESS[b]})'); continue
            t = tests[0]
            failed = (t[2] is True) if '!=' in t[1] else (t[2] is False)
            st = p.last_set('*r')
            if st is None or st[2] != c[3]: w2.append('*r does not receive the library code')
            out = conv_output(c)
            heap = b != 'idnkit'
            frees = [e for e in p.calls('free')]
            if failed:
                nfail += 1
                if p.ret()[1] != '-EEAV_IDN_ERROR': w2.append(f'failure edge returns {p.ret()[1]}')
                later = [x[1] for x in p.events[i + 1:] if x[0] == 'call' and x[1] in ('is_ascii_domain', 'is_special_domain', 'is_tld', 'strlen', 'strrchr')]
                if later: w2.append(f'failure edge still calls {later}')
            if heap:
                init = [e for e in p.events[:i] if e[0] == 'set' and e[1] == out.split('@')[0] and e[2] == 'NULL']
                if not init: w2b.append('output pointer not NULL-initialised before the conversion')
                nonnull = p.passed(out, True); null = p.passed(out, False)
                fr = [f for f in frees if f[2] == (out,)]
                if len(frees) != len(fr): w2b.append(f'frees {[f[2] for f in frees]}')
                if len(fr) > 1: w2b.append(f'buffer freed {len(fr)} times')
                if nonnull and len(fr) != 1: w2b.append(f'buffer non-NULL but freed {len(fr)} time(s)')
                # freeing it exactly once without a NULL test is fine on every edge: the pointer was NULL-initialised and free(NULL) does nothing
                # (free(NULL) does nothing, so a free on a branch where the pointer is known to be NULL is harmless too)
                if not nonnull and len(fr) == 0 and not null: w2b.append('path returns without testing/freeing the buffer')
                if fr:
                    j = p.events.index(fr[0])
                    used = [x for x in p.events[j + 1:] if any(out in s for s in eavobj.event_values(x))]
                    if used: w2b.append('buffer used after free')
            else:
                if frees: w2b.append('stack buffer passed to free')
        if nfail == 0: w1.append('no failure edge found')
        r1.instance(f'{key}:is_utf8_domain', ok=not w1, wclass='failure-test', what='; '.join(sorted(set(w1))))
        r2.instance(f'{key}:is_utf8_domain', ok=not w2, wclass='failure-edge', what='; '.join(sorted(set(w2))))
        r2b.instance(f'{key}:is_utf8_domain', ok=not w2b, wclass='buffer', what='; '.join(sorted(set(w2b))))
        # callers
        k6 = f'partial/{b}/is_6531_email.c'
        eng, paths = cfgpaths.summarise(tus[k6], 'is_6531_email')
        ck.analysed(units=[k6], functions=[f'{k6}:is_6531_email'])
        w3 = []
        for p in paths:
            u = p.calls('is_utf8_domain')
            if not u: continue
            rarg = u[0][2][2 if b == 'idnkit' else 0]
            if not re.fullmatch(r'&malloc#\d+->idn_rc', rarg): w3.append(f'is_utf8_domain receives {rarg} for the library code')
            dom = [e for e in p.sets() if e[1].endswith('->is_domain') and e[2] == '1']
            if dom and not (p.passed(f'({u[0][3]} >= 0)', True) or p.passed(f'({u[0][3]} < 0)', False)): w3.append('is_domain set without rc >= 0')
            rcs = [e for e in p.sets() if re.fullmatch(r'malloc#\d+->rc', e[1])]
            if not rcs or rcs[-1][2] != u[0][3]: w3.append('rc is not the is_utf8_domain result')
        r3.instance(f'{k6}:is_6531_email', ok=not w3, wclass='caller-6531', what='; '.join(sorted(set(w3))))
        ke = f'partial/{b}/eav.c'
        eng, paths = cfgpaths.summarise(tus[ke], 'eav_is_email')
        ck.analysed(units=[ke], functions=[f'{ke}:eav_is_email'])
        w4 = []
        for p in paths:
            if p.events and p.events[-1][0] == 'abort': continue
            # the message of an earlier call must be gone before this call can set its own
            cb = [k for k, e in enumerate(p.events) if e[0] == 'call' and e[1].startswith('(*')]
            before = p.events[:cb[0]] if cb else p.events
            reset = any(e[0] == 'set' and e[1] == 'eav->idnmsg' and e[2] == 'NULL' for e in before) or any(e[0] == 'cond' and e[1] == 'eav->idnmsg' and e[2] is False for e in before)
            if not reset: w4.append('idnmsg of an earlier call is not reset before the address is validated')
            se = p.calls(STRERROR[b])
            rs = p.last_set('eav->result')
            if se and (rs is None or se[0][2] != (rs[2] + '->idn_rc',)): w4.append(f'{STRERROR[b]} applied to {se[0][2]}')
            other = [c[1] for c in p.calls() if c[1] in STRERROR.values() and c[1] != STRERROR[b]]
            if other: w4.append(f'foreign strerror {other}')
        r3.instance(f'{ke}:eav_is_email', ok=not w4, wclass='caller-eav', what='; '.join(sorted(set(w4))))
    ck.assume('the IDN library either stores a heap pointer or leaves the output pointer untouched (NULL) on failure; what the library itself leaks is not analysed')
    ck.assume('"the next validation behaves as if the failure had not happened" follows from C13 (per-call fields overwritten, no other state) and C14 (no globals)')
