"""C07 - TLD class equals the shipped table, matched on the whole last label.
Table invariants (every row), the lookup shape of is_tld, and the call sequence around it in the three check_tld
expansions and the three is_utf8_domain copies (reserved-domain test first, last dot by strrchr, NOT_FQDN when absent,
is_tld on the bytes after the last dot, result passed on unchanged)."""
import re
import unitdb, cfgpaths, tables
from rules import shared, emailfn, eavobj
from rules.c04 import conv_output, out_end
from rules.eavobj import CONVERTERS
from report import AnalysisBroken

LEVEL = 'other'


def pipeline_problems(p, D, E, result_of):
    """the TLD pipeline on one path that passed the tld_check gate; D/E = domain range; result_of(p) = value handed on"""
    why = []
    sp = p.calls('is_special_domain')
    if len(sp) != 1 or sp[0][2] != (D, E): return [f'is_special_domain called {len(sp)}x with {[c[2] for c in sp]}, want once with ({D}, {E})']
    i_sp = p.events.index(sp[0])
    dots = [c for c in p.calls() if c[1] in ('strrchr', 'strchr', 'memrchr', 'memchr') and len(c[2]) >= 2 and c[2][1] == "'.'"]
    tld = p.calls('is_tld')
    if p.passed(sp[0][3], True):
        if result_of(p) != 'TLD_TYPE_SPECIAL': why.append(f'reserved domain yields {result_of(p)}')
        if tld or dots: why.append('table consulted although the domain is reserved')
        return why
    if len(dots) != 1 or dots[0][1] != 'strrchr' or dots[0][2][0] != D: return why + [f'last label located by {[(c[1], c[2]) for c in dots]}, want strrchr({D}, \'.\')']
    if p.events.index(dots[0]) < i_sp: why.append('TLD located before the reserved-domain test')
    dsym = dots[0][3]
    if p.passed(dsym, False):
        if result_of(p) != '-EEAV_DOMAIN_NOT_FQDN' or tld: why.append(f'single-label domain yields {result_of(p)}')
        return why
    if len(tld) != 1 or tld[0][2] != (f'({dsym} + 1)', E): return why + [f'is_tld called with {[c[2] for c in tld]}, want (({dsym} + 1), {E})']
    if result_of(p) != tld[0][3]: why.append(f'is_tld result not handed on unchanged ({result_of(p)})')
    return why


def run(ck):
    us = [u for u in unitdb.units() if u.group != 'cli']
    tus = unitdb.load_asts([u for u in us if u.rel in ('src/auto_tld.c', 'src/is_tld.c')])
    # ---- R7.1
    r1 = ck.rule('R7.1', 'every tld_list row: length == strlen(domain) + 1, lower-case LDH, unique, class assignable (not unused/special/max); one {NULL,0,0} sentinel, last', 1000)
    tu = tus['src/auto_tld.c']
    var, rows = tables.global_table(tu, 'tld_list', keep_names=True)
    classes = {'TLD_TYPE_' + c for c in shared.assignable_classes(tu)} - {'TLD_TYPE_SPECIAL'}
    seen = set()
    ck.analysed(units=['src/auto_tld.c', 'src/is_tld.c'], functions=['src/auto_tld.c:tld_list[]', 'src/is_tld.c:is_tld'])
    for i, r in enumerate(rows[:-1]):
        d = r[0]
        ok = isinstance(d, str) and r[1] == len(d) + 1 and re.fullmatch(r'[a-z0-9]([a-z0-9-]*[a-z0-9])?', d) is not None and d not in seen and r[2] in classes
        seen.add(d)
        r1.instance(f'src/auto_tld.c:tld_list[{i}]', ok=ok, wclass='row', what=f'row {r}: length field, spelling, uniqueness or class is wrong')
    r1.instance('src/auto_tld.c:tld_list[last]', ok=rows[-1] == [None, 0, 0], wclass='sentinel', what=f'last row is {rows[-1]}, want the NULL sentinel')
    ck.sample({'rows': len(rows) - 1, 'first': rows[0], 'last': rows[-2]})
    # ---- R7.2
    r2 = ck.rule('R7.2', 'is_tld: first-match scan to the sentinel, strncasecmp(row.domain, start, row.length) == 0 => row.type, otherwise and for an empty label -EEAV_TLD_INVALID', 1)
    sh = shared.is_tld_shape(tus['src/is_tld.c'])
    r2.instance('src/is_tld.c:is_tld', ok=sh['ok'], wclass='shape', what=sh['why'])
    # ---- R7.3 / R7.4
    r3 = ck.rule('R7.3', 'ASCII modes (check_tld x3): after the tld_check gate: is_special_domain(domain) -> strrchr(domain, \'.\') -> NULL => NOT_FQDN -> is_tld(last dot + 1, end), result stored unchanged', 3)
    etus = emailfn.load(); sums = emailfn.summaries(etus)
    for mode, key in emailfn.ASCII.items():
        eng, paths = sums[key]
        ck.analysed(units=[key], functions=[f'{key}:is_{mode}_email:check_tld'])
        why = []; n = 0
        for p in paths:
            if not p.passed('tld_check', True): continue
            n += 1
            at = p.calls('strrchr')[0][3]
            why += pipeline_problems(p, f'({at} + 1)', '(email + length)', lambda q: next((e[2] for e in reversed(q.events) if e[0] == 'set' and e[1].endswith('->rc')), None))
        if n < 3: why.append(f'only {n} paths pass the tld_check gate')
        r3.instance(f'{key}:is_{mode}_email:check_tld', ok=not why, wclass='pipeline', what='; '.join(sorted(set(why))))
    r4 = ck.rule('R7.4', 'mode 6531 (is_utf8_domain x3): the same sequence on the converter output [out, out + strlen(out)), so U-label and A-label spellings meet in one comparison', 3)
    utus = eavobj.load()
    for b in eavobj.BACKENDS:
        key = f'partial/{b}/is_utf8_domain.c'
        eng, paths = cfgpaths.summarise(utus[key], 'is_utf8_domain')
        ck.analysed(units=[key], functions=[f'{key}:is_utf8_domain'])
        why = []; n = 0
        for p in paths:
            if not p.passed('tld_check', True): continue
            n += 1
            conv = [c for c in p.calls() if c[1] in CONVERTERS]
            if not conv: why.append('TLD pipeline without a conversion'); continue
            out = conv_output(conv[-1])          # the conversion whose output is used (a retry makes a second call)
            why += pipeline_problems(p, out, out_end(p, out), lambda q: q.ret()[1])
        if n < 3: why.append(f'only {n} paths pass the tld_check gate')
        r4.instance(f'{key}:is_utf8_domain', ok=not why, wclass='pipeline', what='; '.join(sorted(set(why))))
    ck.assume('the domain ends at the string terminator, so comparing row.length = strlen + 1 bytes compares the whole last label')
    ck.assume('strncasecmp compares ASCII letters case-insensitively in every locale the library runs in')
    ck.undecided('libidn2 producing the A-label (C10); that the table content is the IANA list (C11 ties it to the shipped CSV)')
