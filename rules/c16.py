"""C16 - result record consistent with the decision and the form of the domain.
Path summaries of the 3 ASCII e-mail functions and is_6531_email (3 backends), default build and -DEAV_EXTRA."""
import re
import unitdb, cfgpaths
from rules import emailfn, shared
from report import AnalysisBroken

LEVEL = 'other'
FLAGS = ('is_ipv4', 'is_ipv6', 'is_domain')


def flag_sets(p, val='1'):
    return [(i, e) for i, e in enumerate(p.events) if e[0] == 'set' and e[1].split('->')[-1] in FLAGS and e[2] == val]


def run(ck):
    for variant, defs in (('', ()), ('extra', ('-DEAV_EXTRA',))):
        tus = emailfn.load(None, variant, defs)
        sums = emailfn.summaries(tus)
        tag = '[EAV_EXTRA]' if variant else ''
        r1 = ck.rule('R16.1', 'at most one of is_ipv4/is_ipv6/is_domain is set on any path, and only after INIT_EAV_RESULT_T cleared all three', 6)
        r2 = ck.rule('R16.2', 'when both halves are syntactically valid exactly one flag is set and it matches the branch: is_domain for host names, is_ipv4/is_ipv6 for literals according to the family established on the path', 6)
        r3 = ck.rule('R16.3', 'no flag is set when basic checks, the local-part scanner or the domain/literal validator failed', 6)
        r4 = ck.rule('R16.4', 'result->rc on return is 0, a TLD class (is_tld / TLD_TYPE_SPECIAL / is_utf8_domain result) or a negative code; positive values only with tld_check on', 6)
        r5 = ck.rule('R16.5', '(EAV_EXTRA) lpart/domain are NULL-initialised, assigned only when both halves are valid, with strndup of [email, at) and (at, end) / inside the brackets', 6) if variant else None
        for key, (eng, paths) in sorted(sums.items()):
            mode = re.search(r'is_(\d+)_email', key).group(1); site = f'{key}:is_{mode}_email{tag}'
            ck.analysed(units=[(variant + ':' if variant else '') + key], functions=[site])
            w1 = []; w2 = []; w3 = []; w4 = []; w5 = []
            for p in paths:
                if p.events and p.events[-1][0] == 'abort': continue
                res = p.ret()[1]
                trues = flag_sets(p)
                zeros = {e[1].split('->')[-1]: i for i, e in flag_sets(p, '0')}
                if len(trues) > 1: w1.append(f'{[e[1] for _, e in trues]} all set on one path')
                for i, e in trues:
                    if set(zeros) != set(FLAGS) or max(zeros.values()) > i: w1.append(f'{e[1]} set before the record was cleared')
                if set(zeros) != set(FLAGS): w1.append('record not cleared on a path')
                loc = emailfn.local_call(p)
                loc_ok = loc is not None and shared.value_is_zero(p, loc[3])
                branch = emailfn.domain_branch(p)
                dom_ok = False; want = None
                if loc_ok and branch == 'host':
                    a = p.calls('is_ascii_domain'); u = p.calls('is_utf8_domain')
                    if a: dom_ok = shared.value_is_zero(p, a[0][3])
                    if u: dom_ok = p.passed(f'({u[0][3]} >= 0)', True) or p.passed(f'({u[0][3]} < 0)', False)
                    want = 'is_domain'
                elif loc_ok and branch == 'literal':
                    fam = shared.literal_family(p)
                    dom_ok = fam['valid']; want = fam['family']
                    if dom_ok and fam['why']: w2.append(fam['why'])
                got = [e[1].split('->')[-1] for _, e in trues]
                if loc_ok and dom_ok:
                    if want is not None and got != [want]: w2.append(f'{branch} branch valid but flags set: {got}, want [{want}]')
                else:
                    if got: w3.append(f'{got} set although {"the local part" if not loc_ok else "the domain"} was not validated')
                # rc
                rc = final_rc(p)
                okrc = rc in ('0', 'EEAV_NO_ERROR', 'TLD_TYPE_SPECIAL') or str(rc).startswith('-EEAV_') or re.fullmatch(r'is_(tld|utf8_domain|ascii_domain|\d+_local)@?#?\d*', str(rc).replace('#', '')) is not None
                if not okrc: w4.append(f'rc = {rc}')
                if rc == 'TLD_TYPE_SPECIAL' or str(rc).startswith('is_tld'):
                    if not p.passed('tld_check', True): w4.append(f'rc = {rc} without tld_check')
                if variant:
                    ss = {e[1].split('->')[-1]: (i, e) for i, e in enumerate(p.events) if e[0] == 'set' and e[1].split('->')[-1] in ('lpart', 'domain')}
                    nulls = [e for e in p.events if e[0] == 'set' and e[1].split('->')[-1] in ('lpart', 'domain') and e[2] == 'NULL']
                    if len(nulls) < 2: w5.append('lpart/domain not NULL-initialised')
                    dups = [c for c in p.calls('strndup')]
                    if dups and not (loc_ok and dom_ok): w5.append('strndup although a half is invalid')
                    if loc_ok and dom_ok:
                        at = p.calls('strrchr')[0][3]
                        if branch == 'host': want_args = [('email', f'((({at} + 1) - email) - 1)'), (f'({at} + 1)', f'((email + length) - ({at} + 1))')]
                        else:
                            bre = [c for c in p.calls('strrchr') if c[2][1] == "']'"]
                            b = bre[0][3] if bre else '?'
                            want_args = [('email', f'((({at} + 1) - email) - 1)'), (f'(({at} + 1) + 1)', f'(({b} - ({at} + 1)) - 1)')]
                        got_args = [c[2] for c in dups]
                        if len(got_args) != len(want_args) or not all(len(g) == len(w) and all(shared.same_value(x, y) for x, y in zip(g, w)) for g, w in zip(got_args, want_args)): w5.append(f'strndup{got_args}, want {want_args}')
            r1.instance(site, ok=not w1, wclass='flags-exclusive', what='; '.join(sorted(set(w1))))
            r2.instance(site, ok=not w2, wclass='flag-matches-form', what='; '.join(sorted(set(w2))))
            r3.instance(site, ok=not w3, wclass='flag-on-invalid', what='; '.join(sorted(set(w3))))
            r4.instance(site, ok=not w4, wclass='rc-range', what='; '.join(sorted(set(w4))))
            if variant: r5.instance(site, ok=not w5, wclass='extra-strings', what='; '.join(sorted(set(w5))))
    # eav_result_free releases both strings (EAV_EXTRA) and the record
    us = [u for u in unitdb.units(None, 'extra', ('-DEAV_EXTRA',)) if u.rel == 'src/eav.c']
    tu = unitdb.load_asts(us)['extra:src/eav.c']
    r6 = ck.rule('R16.6', 'eav_result_free(NULL) is a no-op; otherwise lpart and domain (EAV_EXTRA) and the record are freed exactly once', 1)
    eng, paths = cfgpaths.summarise(tu, 'eav_result_free')
    why = []
    for p in paths:
        freed = [c[2][0] for c in p.calls('free')]
        if p.passed('result', False):
            if freed: why.append('frees on the NULL path')
            continue
        exp = ['result']
        for fld in ('result->lpart', 'result->domain'):
            if p.passed(fld, True): exp.insert(0, fld)
            elif not p.passed(fld, False) and fld not in freed: why.append(f'{fld} is neither freed nor known to be NULL')
        if sorted(freed) != sorted(exp) or freed[-1] != 'result': why.append(f'frees {freed}, want {exp} (record last)')
    r6.instance('src/eav.c:eav_result_free[EAV_EXTRA]', ok=not why and len(paths) >= 2, wclass='result-free', what='; '.join(sorted(set(why))))
    ck.analysed(units=['extra:src/eav.c'], functions=['src/eav.c:eav_result_free'])
    ck.notes.append('Noted, not a violation of the statement: the ASCII modes leave is_domain set on NOT_FQDN / invalid-TLD results while mode 6531 clears it.')
    ck.assume('syntactic validity of each half is what the per-part validators report (their languages: C02-C05)')


def final_rc(p):
    for e in reversed(p.events):
        if e[0] == 'set' and e[1].endswith('->rc'): return e[2]
    return None
