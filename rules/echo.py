"""R20.6 - the echo clause of C20, decided as a loop-invariant check over the path summaries of sanitize_utf8.

Statement: "a line that is well-formed UTF-8 without control characters is echoed unchanged".  On such a line the
tool's decoder (R20.5: exactly RFC 3629, the_byte = byte index of the character returned last, untouched by an END
return) yields characters c > 0x1f, != 0x7f at byte offsets 0 = b0 < b1 < ... < LEN and then END for ever.  The loop
of sanitize_utf8 consumes two characters per iteration; the rule evaluates ONE iteration symbolically for every head
state x decoder outcome and checks that it re-establishes the invariant

    pending(P2):  0 < P2 < LEN, c2 is the character at P2, pos == P2, sanitized[0, P2) == text[0, P2)
    done:         c2 <= 0, pos == LEN, sanitized[0, LEN) == text[0, LEN), the decoder is at END

from  start (c2 = 0, p2 = 0, pos = 0)  and from  pending(P2) for an arbitrary P2  (induction), and that every exit
leaves  sanitized[0, LEN) == text[0, LEN), sanitized[LEN] == NUL.  Values are linear forms over {P2, B1, B2, LEN}
(B1, B2: offsets of the characters read in this iteration); a copy memcpy(sanitized + o, text + i, n) must have
o == i == the frontier reached so far; an escape (copy from buf), a truncation exit whose guard can be true, a gap or an
overlap is a violation with the scenario that reaches it."""
import re
import cfgpaths
from report import AnalysisBroken
from astutil import where

CHAR, END = 'CHAR', 'END'
DEBUG = None
END_VALUE = None      # the decoder's END value, from the decoder rules (R20.5c)


# ---- linear forms: dict symbol -> coefficient, '' -> constant
def lin_parse(s, atoms):
    """parse a rendered expression made of + and - over atoms and integers; atoms maps atom text -> linear form"""
    s = s.strip()
    toks = []; i = 0
    while i < len(s):
        ch = s[i]
        if ch.isspace(): i += 1; continue
        if ch in '()+*': toks.append(ch); i += 1; continue
        if ch == '-' and not (i + 1 < len(s) and s[i + 1] == '>'): toks.append(ch); i += 1; continue
        if ch.isdigit():
            j = i
            while j < len(s) and s[j].isdigit(): j += 1
            toks.append(s[i:j]); i = j; continue
        j = i
        while j < len(s) and (s[j].isalnum() or s[j] in "_@#'" or s[j:j + 2] == '->' or (s[j] == '>' and s[j - 1] == '-')): j += 1
        if j == i: raise ValueError(f'unexpected {ch!r} in {s!r}')
        toks.append(s[i:j]); i = j
    pos = [0]
    def peek(): return toks[pos[0]] if pos[0] < len(toks) else None
    def take():
        t = peek(); pos[0] += 1; return t
    def add(a, b, k=1):
        out = dict(a)
        for s_, c in b.items(): out[s_] = out.get(s_, 0) + k * c
        return {s_: c for s_, c in out.items() if c != 0}
    def term():
        t = take()
        if t == '(':
            v = expr()
            if take() != ')': raise ValueError('missing )')
        elif t == '-': v = add({}, term(), -1); return v
        elif t is not None and t.isdigit(): v = {'': int(t)} if int(t) else {}
        elif t is not None and t not in ')+*':
            if t not in atoms: raise KeyError(t)
            v = dict(atoms[t])
        else: raise ValueError(f'unexpected token {t!r} in {s!r}')
        while peek() == '*':
            take(); w = term()
            if set(v) <= {''}: v = {k: c * v.get('', 0) for k, c in w.items()}
            elif set(w) <= {''}: v = {k: c * w.get('', 0) for k, c in v.items()}
            else: raise ValueError('non-linear product')
            v = {k: c for k, c in v.items() if c != 0}
        return v
    def expr():
        v = term()
        while peek() in ('+', '-'):
            op = take(); w = term(); v = add(v, w, 1 if op == '+' else -1)
        return v
    v = expr()
    if peek() is not None: raise ValueError(f'trailing {peek()!r} in {s!r}')
    return v


def show(v):
    if not v: return '0'
    return ' + '.join((f'{c}*' if c != 1 else '') + (k or '1') if k else str(c) for k, c in sorted(v.items(), key=lambda kv: kv[0] == ''))


def sym(name): return {name: 1}


class Scenario:
    """one head state x decoder outcome; chain = the symbols in increasing order (all < LEN unless equal to it)"""
    def __init__(self, head, outcomes, P2=None):
        self.head = head; self.outcomes = outcomes; self.P2 = P2
    def name(self):
        return f'{self.head} / decoder yields {" then ".join(self.outcomes)}'


def segments(paths):
    """-> (first iteration segments, generic iteration segments); a segment = (events, how it ends, path)"""
    first = {}; gen = {}
    for p in paths:
        ev = p.events
        b = next((k for k, e in enumerate(ev) if e[0] == 'loop' and e[1].endswith(':backedge')), None)
        if b is None:
            first.setdefault(tuple(p.text()), (ev, 'return', p)); continue
        first.setdefault(tuple(p.text()[:b]), (ev[:b], 'backedge', p))
        a = next((k for k, e in enumerate(ev) if e[0] == 'loop' and e[1].endswith(':again')), None)
        if a is None: continue
        b2 = next((k for k, e in enumerate(ev) if k > a and e[0] == 'loop' and e[1].endswith(':backedge')), None)
        if b2 is None: gen.setdefault(tuple(p.text()[a + 1:]), (ev[a + 1:], 'return', p))
        else: gen.setdefault(tuple(p.text()[a + 1:b2]), (ev[a + 1:b2], 'backedge', p))
    return list(first.values()), list(gen.values())


def run(ck, tu, model, rid='R20.6', end_value=None):
    global END_VALUE
    END_VALUE = end_value
    site = 'bin/main.c:sanitize_utf8'
    eng, paths = cfgpaths.summarise(tu, 'sanitize_utf8', open_paths=True)
    params = tu.params('sanitize_utf8')
    if len(params) != 2: raise AnalysisBroken(f'sanitize_utf8 takes {params}')
    TEXT, LENP = params
    first, gen = segments(paths)
    # the echo buffer of each path (static array, or the pointer/capacity pair established before the loop)
    def with_model(segs):
        out = []
        for ev, how, p in segs:
            bm = model.on_path(p)
            if bm['buf'] is None: continue            # allocation failed: outside the clause (assumption recorded)
            out.append((ev, how, p, bm))
        return out
    if any(model.on_path(p)['problems'] for ev, how, p in first + gen):
        ck.undecided('echo clause (R20.6) not evaluated on this tree: the echo buffer does not satisfy its model (see R20.1)'); return
    first = with_model(first); gen = with_model(gen)
    rule = ck.rule(rid, 'echo invariant of sanitize_utf8 on a clean line (well-formed UTF-8, no control characters): every iteration copies text[frontier, next offset) to sanitized at the same offset, no escape and no truncation exit is reachable, every exit leaves sanitized == text with the terminator at LEN', 8)
    if not first or not gen: raise AnalysisBroken('sanitize_utf8: loop iterations not found in the path summaries')
    # the variables the invariant speaks about: found by role, not by name
    #   pos  = the variable added to `sanitized` in the copies; c2/p2 = loop-carried result of the second next/at_byte
    roles = find_roles(first + gen)
    walk_segment.p2_names = set(); walk_segment.c2_names = set()
    nscen = 0
    for head in ('start', 'pending'):
        segs = first if head == 'start' else gen
        for outcomes in ((END,), (CHAR, END), (CHAR, CHAR)):
            nscen += 1
            sc = Scenario(head, outcomes)
            res = evaluate(sc, segs, roles, TEXT, LENP)
            for cls, what, at in res['violations']:
                rule.instance(f'{site}:{head}:{"-".join(outcomes)}', ok=False, wclass=cls, what=f'{sc.name()}: {what}' + (f' ({at})' if at else ''))
            if not res['violations']: rule.instance(site, ok=True, detail={'scenario': sc.name(), 'ends': res['ends']})
    # the done state: only END can follow, and the iteration must leave without touching the output
    sc = Scenario('done', (END,))
    res = evaluate(sc, gen, roles, TEXT, LENP)
    for cls, what, at in res['violations']:
        rule.instance(f'{site}:done:END', ok=False, wclass=cls, what=f'{sc.name()}: {what}' + (f' ({at})' if at else ''))
    if not res['violations']: rule.instance(site, ok=True, detail={'scenario': sc.name(), 'ends': res['ends']})
    # utf8_decode_init(text, length) before the first character is read
    init_ok = all(any(e[0] == 'call' and e[1] == 'utf8_decode_init' and tuple(e[2][:2]) == (TEXT, LENP) for e in ev) for ev, how, p, bm in first)
    rule.instance(f'{site}:init', ok=init_ok, wclass='decoder-init', what=f'the decoder is not initialised with ({TEXT}, {LENP}) before the loop')
    ck.sample({'echo_scenarios': nscen + 1, 'first_iteration_segments': len(first), 'generic_iteration_segments': len(gen), 'roles': roles})
    ck.assume('echo clause: the decoder behaves as R20.5 establishes (characters in order, the_byte = offset of the character returned last, END for ever at the end); allocation of the echo buffer succeeds')


def find_roles(segs):
    """names of the output position, and of the loop-carried (character, offset) pair, from the shape of the code"""
    pos = None; heads = set(); tag = None
    for ev, how, p, bm in segs:
        for e in ev:
            if e[0] == 'call' and e[1] == 'memcpy':
                m = re.fullmatch(r"\(" + re.escape(bm['buf']) + r" \+ (\w+)@(L\d+)'*\)", e[2][0])
                if m: pos = m.group(1); tag = m.group(2)
            for s in ([e[1]] if e[0] == 'cond' else []):
                for m in re.finditer(r"(\w+)@(L\d+)'*", s): heads.add(m.group(1))
    if pos is None: raise AnalysisBroken('sanitize_utf8: no copy into sanitized at a loop-carried position found')
    return {'pos': pos, 'tag': tag, 'head_vars': sorted(heads)}


def evaluate(sc, segs, roles, TEXT, LENP):
    """find the segment(s) the scenario takes and check them"""
    out = {'violations': [], 'ends': []}
    taken = []
    for ev, how, p, bm in segs:
        r = walk_segment(sc, ev, how, roles, TEXT, LENP, bm)
        if r is None: continue                        # a branch of this segment contradicts the scenario
        taken.append(r)
    if not taken:
        raise AnalysisBroken(f'sanitize_utf8: no path matches the scenario "{sc.name()}" (a condition the echo rule cannot evaluate?)')
    for r in taken:
        out['violations'] += r['violations']; out['ends'].append(r['end'])
    return out


class Undecidable(Exception): pass


def walk_segment(sc, ev, how, roles, TEXT, LENP, bm):
    tag = roles['tag']; POS = roles['pos']; BUF = bm['buf']
    LEN = sym('LEN') if not (sc.head == 'start' and sc.outcomes == (END,)) else {}     # END on the first read: the line is empty
    # --- scenario facts
    if sc.head == 'start':
        frontier = {}; head_vals = {}; prev_byte = {}            # the_byte after init is 0
        order = ['B1', 'B2']                                   # 0 == B1 < B2 < LEN
        b1 = {}                                                # the first character sits at offset 0
        head_kind = {}
    elif sc.head == 'pending':
        frontier = sym('P2'); prev_byte = sym('P2'); b1 = sym('B1'); head_kind = 'pending'
    else:
        frontier = dict(LEN); prev_byte = sym('PL'); b1 = None; head_kind = 'done'
    atoms = {LENP: LEN}
    if isinstance(bm['cap'], str) and bm['cap'].endswith('@static'): atoms[bm['cap']] = sym('CAP')      # old capacity: >= the requested size (growth test failed)
    kinds = {}                # call symbol of utf8_decode_next -> CHAR / END
    nexts = 0; last_byte = prev_byte
    violations = []
    env = {}                  # variable -> ('lin', form) | ('kind', CHAR/END) | ('zero',)
    def head_atom(name):
        return f'{name}@{tag}'
    # values of loop-carried variables at the head
    def atom_value(a):
        """linear value of an atom, or raise KeyError"""
        if a in atoms: return atoms[a]
        m = re.fullmatch(r"(\w+)@" + tag + r"'*", a)
        if m:
            v = m.group(1)
            if v == POS: return frontier if sc.head != 'start' else {}
            if sc.head == 'pending' and v in p2_names: return sym('P2')
            if sc.head == 'done' and v in p2_names: return sym('PL')
        raise KeyError(a)
    # which head variables are "the pending offset" / "the pending character": the ones assigned from the SECOND
    # at_byte / next call of an iteration
    p2_names = set(); c2_names = set()
    calls = [e for e in ev if e[0] == 'call' and e[1] in ('utf8_decode_next', 'utf8_decode_at_byte')]
    for k, e in enumerate(ev):
        if e[0] == 'set':
            src = e[2]
            nx = [c for c in calls if c[3] == src]
            if nx:
                idx = [c for c in calls if c[1] == nx[0][1]].index(nx[0])
                if idx >= 1: (p2_names if nx[0][1] == 'utf8_decode_at_byte' else c2_names).add(e[1])
    if not p2_names or not c2_names:
        # segments that end before the second read carry no information about the names: take them from the roles
        p2_names = set(walk_segment.p2_names); c2_names = set(walk_segment.c2_names)
    else:
        walk_segment.p2_names |= p2_names; walk_segment.c2_names |= c2_names
    def kind_of(a):
        """CHAR / END / ZERO for an atom that holds a decoder result"""
        if a in kinds: return kinds[a]
        m = re.fullmatch(r"(\w+)@" + tag + r"'*", a)
        if m and m.group(1) in c2_names:
            return {'pending': CHAR, 'done': END}.get(sc.head)
        return None
    def lin(s):
        class A(dict):
            def __contains__(self, k):
                try: atom_value(k); return True
                except KeyError: return False
            def __getitem__(self, k): return atom_value(k)
        try: return lin_parse(s, A())
        except (KeyError, ValueError) as e: raise Undecidable(f'{s}: {e}')
    def decide(cond):
        """truth of a rendered condition under the scenario; None = the echo rule has no opinion (not about the decoder
        results, the offsets or the buffer)"""
        m = re.fullmatch(r"\((.+) (<|>|<=|>=|==|!=) (.+)\)", cond)
        if not m:
            k = kind_of(cond)
            if k is not None: return k == CHAR             # `if (c)` on a character
            raise Undecidable(cond)
        L, op, R = m.group(1), m.group(2), m.group(3)
        k = kind_of(L)
        if k is not None and re.fullmatch(r'-?\d+', R):
            n = int(R)
            # a clean character: > 0x1f, != 0x7f, any code point above; END is negative
            if k == END:
                # END is one negative value (R20.5c gives it); ERROR cannot occur on a clean line
                ev_ = END_VALUE
                if ev_ is None:
                    if n >= 0 and op in ('<', '<=', '>', '>='): ev_ = -1          # only the sign matters
                    elif n >= 0: return op == '!='
                    else: raise Undecidable(cond)
                return {'<': ev_ < n, '<=': ev_ <= n, '>': ev_ > n, '>=': ev_ >= n, '==': ev_ == n, '!=': ev_ != n}[op]
            # a clean character: any code point in 0x20..0x7e or 0x80..0x10ffff - each read is a free choice among them
            pts = {0x20, 0x7e, 0x80, 0x10ffff} | {x for x in (n - 1, n, n + 1) if 0x20 <= x <= 0x7e or 0x80 <= x <= 0x10ffff}
            f = {'<': lambda c: c < n, '<=': lambda c: c <= n, '>': lambda c: c > n, '>=': lambda c: c >= n, '==': lambda c: c == n, '!=': lambda c: c != n}[op]
            vals = {f(c) for c in pts}
            return vals.pop() if len(vals) == 1 else 'either'
        # offsets and the buffer
        try: a = lin(L); b = lin(R)
        except Undecidable: raise
        return compare(a, op, b, sc, cond, need)
    need = None
    in_prefix = (sc.head == 'start') and any(x[0] == 'call' and x[1] == 'utf8_decode_init' for x in ev)
    if isinstance(bm['cap'], str):
        tests = [x for x in [bm['cap']] ]
    frontier_now = dict(frontier) if sc.head != 'start' else {}
    pos_val = dict(frontier_now)
    b_syms = {}
    end = None
    nul_at = None
    for e in ev:
        if e[0] == 'call' and e[1] == 'utf8_decode_next':
            k = sc.outcomes[nexts] if nexts < len(sc.outcomes) else END
            if nexts >= len(sc.outcomes) and sc.outcomes[-1] != END: return None      # a third read belongs to the next iteration's scenario
            kinds[e[3]] = k; nexts += 1
            if k == CHAR:
                if nexts == 1: last_byte = ({} if sc.head == 'start' else sym('B1'))
                else: last_byte = sym('B2')
            # END leaves the_byte alone
        elif e[0] == 'call' and e[1] == 'utf8_decode_at_byte':
            atoms[e[3]] = dict(last_byte)
        elif e[0] == 'call' and e[1] == 'utf8_decode_init': in_prefix = False
        elif e[0] == 'cond':
            if in_prefix: continue          # before the decoder is initialised: growth test and allocation result, owned by the buffer model
            try: t = decide(e[1])
            except Undecidable as u:
                if 'realloc' in e[1] or 'malloc' in e[1]:
                    # allocation of the echo buffer: the success side (assumption recorded by the rule)
                    t = e[2] if _alloc_success(e) else (not e[2]);
                    if t != e[2]: return None
                    continue
                raise AnalysisBroken(f'sanitize_utf8: the echo rule cannot evaluate the condition {e[1]} ({u}) at {where(e[-1]) if isinstance(e[-1], dict) else "?"}')
            if t == 'maybe-truncate':
                if e[2]:
                    violations.append(('truncation', f'the truncation guard {e[1]} can be true on a clean line that does not fit the buffer: the echo is cut short', where(e[-1]) if isinstance(e[-1], dict) else None))
                    return {'violations': violations, 'end': 'truncated'}
                continue
            if t == 'either': continue              # some clean characters take this branch, others the opposite one: both are scenarios
            if t != e[2]:
                if DEBUG is not None: DEBUG[(e[1], e[2], t)] += 1
                return None
        elif e[0] == 'call' and e[1] == 'sprintf':
            violations.append(('escape', f'an escape is formatted ({", ".join(map(str, e[2]))}) although the line has no control character', where(e[4])))
            return {'violations': violations, 'end': 'escape'}
        elif e[0] == 'call' and e[1] == 'memcpy':
            dst, src, n = e[2][0], e[2][1], e[2][2]
            md = re.fullmatch(r'\(' + re.escape(BUF) + r' \+ (.+)\)', dst); ms = re.fullmatch(r'\(' + re.escape(TEXT) + r' \+ (.+)\)', src)
            if not md: violations.append(('copy', f'copy into {dst}', where(e[4]))); continue
            if not ms:
                violations.append(('escape', f'memcpy({dst}, {src}, {n}) copies something other than the line itself', where(e[4]))); continue
            try: o = lin(md.group(1)); i = lin(ms.group(1)); ln = lin(n)
            except Undecidable as u: raise AnalysisBroken(f'sanitize_utf8: copy with operands outside the echo rule\'s vocabulary: {u}')
            if o != frontier_now: violations.append(('gap-or-overlap', f'copy to sanitized + {show(o)} while {show(frontier_now)} bytes have been written', where(e[4])))
            if i != o: violations.append(('shifted', f'text + {show(i)} is copied to sanitized + {show(o)}', where(e[4])))
            frontier_now = _add(o, ln)
        elif e[0] == 'set':
            name = e[1]
            if name == POS:
                try: pos_val = lin(e[2])
                except Undecidable as u: raise AnalysisBroken(f'sanitize_utf8: {POS} := {e[2]} is outside the echo rule\'s vocabulary')
                atoms[POS] = pos_val
            m = re.fullmatch(re.escape(BUF) + r'\[(.+)\]', name)
            if m and e[2] in ("'\\x00'", '0'):
                try: nul_at = lin(m.group(1))
                except Undecidable: nul_at = 'unknown'
            # track plain copies of decoder results / offsets into variables
            if e[2] in kinds: kinds[name] = kinds[e[2]]
            if e[2] in atoms and name != POS: atoms[name] = atoms[e[2]]
        elif e[0] == 'return':
            end = 'return'
    if pos_val != frontier_now and not violations:
        violations.append(('position', f'{POS} == {show(pos_val)} after copying {show(frontier_now)} bytes', None))
    if how == 'return':
        if frontier_now != LEN: violations.append(('incomplete', f'the function returns after copying text[0, {show(frontier_now)}) of LEN bytes', None))
        if nul_at is None or nul_at == 'unknown' or nul_at != frontier_now: violations.append(('terminator', f'terminator stored at {show(nul_at) if isinstance(nul_at, dict) else nul_at}, {show(frontier_now)} bytes were written', None))
        return {'violations': violations, 'end': 'return: sanitized == text'}
    # back edge: which head state follows?
    last = sc.outcomes[-1]
    if sc.outcomes == (END,):
        violations.append(('no-exit', 'the loop continues after the decoder reported END on its first read', None))
        return {'violations': violations, 'end': 'backedge'}
    c2v = p2v = None
    for e in ev:
        if e[0] == 'set' and e[1] in c2_names: c2v = kinds.get(e[2], c2v)
        if e[0] == 'set' and e[1] in p2_names:
            try: p2v = lin(e[2])
            except Undecidable: p2v = None
    if last == CHAR:
        want = sym('B2')
        if c2v != CHAR or p2v != want: violations.append(('invariant', f'after two characters the pending pair is ({c2v}, {show(p2v) if p2v is not None else None}), want (the second character, its offset B2)', None))
        if frontier_now != want: violations.append(('invariant', f'{show(frontier_now)} bytes written at the loop head, want B2 (everything before the pending character)', None))
        return {'violations': violations, 'end': 'backedge -> pending(B2)'}
    else:
        if c2v != END: violations.append(('invariant', 'the loop head after END does not carry the END result', None))
        if frontier_now != LEN: violations.append(('invariant', f'{show(frontier_now)} bytes written when the decoder is at END, want LEN', None))
        return {'violations': violations, 'end': 'backedge -> done'}

walk_segment.p2_names = set(); walk_segment.c2_names = set()


def _undec(cond): raise Undecidable(cond)


def _alloc_success(e):
    return e[2] if not e[1].startswith('(') else ((' == NULL' in e[1] or ' == 0' in e[1]) != e[2])


def _add(a, b):
    out = dict(a)
    for k, c in b.items(): out[k] = out.get(k, 0) + c
    return {k: c for k, c in out.items() if c != 0}


def compare(a, op, b, sc, cond, need=None):
    """a op b over the chain  0 <= (P2 <) B1 < B2 < LEN  (start: B1 == 0; pending: 0 < P2 < B1) ; 'maybe-truncate' when
    one side is the buffer capacity and cannot be shown to exceed the other"""
    d = _add(a, {k: -c for k, c in b.items()})          # a - b
    if not d: return {'<': False, '<=': True, '>': False, '>=': True, '==': True, '!=': False}[op]
    if set(d) == {''}:
        v = d['']; return {'<': v < 0, '<=': v <= 0, '>': v > 0, '>=': v >= 0, '==': v == 0, '!=': v != 0}[op]
    # single symbol vs constant 0:  offsets are >= 0; P2, B2 > 0; B1 > 0 unless start; LEN > the largest offset
    chain = {'start': ['B1', 'B2', 'LEN'], 'pending': ['P2', 'B1', 'B2', 'LEN'], 'done': ['PL', 'LEN']}[sc.head]
    # a - b = x - y for chain symbols x, y (coefficients +1/-1, no constant)
    pos_ = [k for k, c in d.items() if c == 1 and k]; neg_ = [k for k, c in d.items() if c == -1 and k]
    if '' not in d and len(pos_) <= 1 and len(neg_) <= 1 and len(pos_) + len(neg_) == len(d):
        x = pos_[0] if pos_ else None; y = neg_[0] if neg_ else None
        if x in chain + [None] and y in chain + [None]:
            ix = chain.index(x) if x else -1; iy = chain.index(y) if y else -1
            # sign of x - y:  later in the chain = larger (strictly, except start's B1 == 0 against the constant 0)
            if x and y: s = 1 if ix > iy else -1
            elif x: s = 0 if (sc.head == 'start' and x == 'B1') else 1
            else: s = 0 if (sc.head == 'start' and y == 'B1') else -1
            if sc.head == 'done' and (x == 'PL' or y == 'PL') and (x is None or y is None): raise Undecidable(cond)   # the last offset may be 0
            return {'<': s < 0, '<=': s <= 0, '>': s > 0, '>=': s >= 0, '==': s == 0, '!=': s != 0}[op]
    # capacity tests:  E (an offset <= LEN)  against  a constant or a multiple of LEN
    if op in ('>=', '>', '<', '<='):
        lhs, rhs = (a, b) if op in ('>=', '>') else (b, a)         # lhs >(=) rhs  means "does not fit"
        if _is_offset(lhs, chain):
            cap = rhs
            k = cap.get('LEN', 0); c0 = cap.get('', 0)
            if set(cap) <= {'LEN', ''} and k >= 1 and c0 >= 1: return op in ('<', '<=')      # capacity > LEN >= offset: fits
            if set(cap) == {'CAP'} and cap['CAP'] == 1: return op in ('<', '<=')             # the old buffer: at least the requested size (checked by the buffer model: NEED = a*length + c, a >= 1, c >= 1)
            if set(cap) <= {''}: return 'maybe-truncate'                                      # fixed capacity: a longer clean line exists
    raise Undecidable(cond)


def _is_offset(v, chain):
    """v <= LEN for sure: a sum that telescopes to one chain symbol (or 0), possibly minus a constant"""
    w = {k: c for k, c in v.items() if k}
    return v.get('', 0) <= 0 and ((not w) or (len(w) == 1 and list(w.values()) == [1] and list(w)[0] in chain))
