"""Shared machinery for the local-part properties (C02, C03, C12, C15 monitors, C17 relations)."""
import unitdb, scanex, forkmap
from scanex import END, NA, BAD
from spec import localpart as LP
from report import AnalysisBroken
from astutil import where, line_of

ERRNAMES = {}


def symbol_category(b):
    if b == END: return 'end'
    if scanex.is_na(b): return 'non-ascii-char'
    if b == BAD: return 'ill-formed-utf8'
    if b >= 0x80: return 'byte>=0x80'
    if b == 0x22: return 'dquote'
    if b == 0x5c: return 'backslash'
    if b == 0x2e: return 'dot'
    if b in LP.WS: return {0x20: 'space', 0x09: 'htab', 0x0d: 'cr', 0x0a: 'lf'}[b]
    if b in LP.CTL_SET: return 'ctl'
    if b in LP.SPECIALS: return 'special'
    if b in LP.RFC20: return 'rfc20-graphic'
    return 'atom-char'


def state_name(st):
    return st if isinstance(st, str) else ':'.join(str(x) for x in st)


def first_dead(spec, witness):
    """(state, symbol category) of the first transition on which the specification dies, or None"""
    init, step, acc, dead = spec
    st = init
    for b in witness:
        if b == END: break
        st2 = step(st, b)
        if dead(st2): return state_name(st), symbol_category(b)
        st = st2
    return None


def errname(tu, rc):
    if rc == 0: return 'EEAV_NO_ERROR'
    for k, v in tu.enums.items():
        if k.startswith('EEAV_') and v == -rc: return k
    return str(rc)


def local_units(options=None, variant=''):
    us = [u for u in unitdb.units(options, variant) if u.rel in ('src/is_822_local.c', 'src/is_5321_local.c', 'src/is_5322_local.c', 'src/is_6531_local.c', 'src/utf8_decode.c')]
    return unitdb.load_asts(us)


def alphabet(tus_fns, extra_consts=(), utf8=False):
    consts, masks = scanex.function_constants(tus_fns)
    consts |= set(extra_consts)
    der = scanex.derived_ops(tus_fns)
    reps, class_of, classes = scanex.byte_classes(consts, masks, LP.PREDICATE_SETS, derived=der)
    syms = list(reps)
    if utf8:
        # a non-ASCII character is NA + (class of the low byte of its code point): code that narrows the code point
        # to a char sees that byte; everything else only sees 'greater than 0x7f'
        lows, _, _ = scanex.byte_classes(consts, set(), (), lo=0, hi=255)
        syms = [r for r in reps if r < 0x80] + [NA + l for l in lows] + [BAD]
    return syms, class_of, classes


def compare_with_spec(ck, rule, tu, fname, machine_factory, spec, symbols, terms, site, tag=''):
    """language equality of one extracted scanner with a spec DFA; reports one violation per mismatch class"""
    res = forkmap.forkmap([spec_task(tu, machine_factory, spec, symbols, t) for t in terms])
    return report_spec(ck, rule, tu, fname, res, site, tag)


def spec_task(tu, machine_factory, spec, symbols, term):
    def task():
        found = {}
        m = machine_factory(term)
        d = scanex.DFAMachine('spec', *spec)
        def leaf(results, witness):
            (rc, node), (src, _) = results
            acc_i = (rc == 0); acc_s = (src == 0)
            if acc_i == acc_s: return
            if acc_i:
                fd = first_dead(spec, witness)
                cls = 'accepts-invalid:' + (f'{fd[0]}/{fd[1]}' if fd else 'not-accepting-at-end')
            else:
                cls = 'rejects-valid:' + errname(tu, rc)
            cur = found.get(cls)
            if cur is None or len(witness) < len(cur['w']):
                found[cls] = {'w': list(witness), 'rc': rc, 'at': where(node) if node else '?', 'term': term}
        ex = scanex.Explorer([m, d], symbols, term)
        ex.run(leaf)
        return ex.configs, ex.transitions, found, getattr(m, 'overruns', 0)
    return task


def report_spec(ck, rule, tu, fname, results, site, tag=''):
    total_cfg = sum(r[0] for r in results); total_tr = sum(r[1] for r in results)
    found = {}
    for r in results:
        for cls, f in r[2].items():
            if cls not in found or len(f['w']) < len(found[cls]['w']): found[cls] = f
    ck.mc(total_cfg, total_tr)
    if not found:
        rule.instance(site + tag, ok=True, detail={'configurations': total_cfg, 'transitions': total_tr})
    for cls, f in sorted(found.items()):
        w = [s for s in f['w'] if s != END]
        rule.instance(site + tag, ok=False, wclass=cls, witness=scanex.show(w),
                      what=f'{fname}{tag}: {"accepts" if f["rc"] == 0 else "rejects with " + errname(tu, f["rc"])} {scanex.show(w)!r} '
                           f'(return at {f["at"]}; byte after the local part = {f["term"]:#x}); the specification says the opposite [{cls}]',
                      detail={'witness_symbols': [s if isinstance(s, int) else str(s) for s in w], 'rc': f['rc'], 'return_at': f['at'], 'terminator': f['term']})
    return total_cfg, total_tr, found
