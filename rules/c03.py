"""C03 - RFC 6531 local part: strict UTF-8 plus the RFC 5321 grammar, nothing else.
O3.1 the decoder accepts exactly RFC 3629's well-formed sequences (lib/decoder.py, interval abstract interpretation);
O3.2 is_6531_local, read at code-point level through the decoder's summary, equals the 5321 specification
     automaton extended with one symbol for "a well-formed non-ASCII character" (joint exploration, all lengths)."""
import scanex
from scanex import NA, BAD
from spec import localpart as LP
from rules import lp
from report import AnalysisBroken

LEVEL = 'model_checking'


def machine_6531(tu, term, summary=None):
    m = scanex.DecoderScannerMachine(tu, 'is_6531_local', term)
    summary = summary or {'end': -1, 'error': -2}
    m.utf8_end, m.utf8_error = summary['end'], summary['error']
    return m


def check_na_premise(ck, tu, fname, site):
    """NA stands for *every* non-ASCII code point: the scanner must not compare its character with any constant
    above 0x7f (other comparisons cannot distinguish two non-ASCII code points)."""
    import astutil
    big = sorted({int(n['value']) for n in astutil.walk(tu.fn(fname)) if n.get('kind') in ('IntegerLiteral', 'CharacterLiteral') and 0x7f < int(n['value']) < 0x10ffff})          # constants at or above the largest code point are decided uniformly (Engine B)
    if big: raise AnalysisBroken(f'{site}: compares with constants above 0x7f {big}: the one-symbol abstraction of non-ASCII characters does not apply')


def run(ck):
    tus = lp.local_units()
    key = 'src/is_6531_local.c'; fname = 'is_6531_local'
    tu = tus[key]
    ck.analysed(units=[key, 'src/utf8_decode.c'], functions=[f'{key}:{fname}'])
    check_na_premise(ck, tu, fname, key)
    from rules import decoder
    summary = decoder.run(ck, tus['src/utf8_decode.c'])
    if summary['end'] is None or summary['error'] is None: summary = {'end': -1, 'error': -2}
    r2 = ck.rule('O3.2', 'L(is_6531_local, default flags) == 5321 spec DFA + NONASCII as atom/quoted-text character, ILLFORMED dead; all lengths', 1)
    symbols, class_of, classes = lp.alphabet([tu.fn(fname)], utf8=True)
    spec = LP.local_spec(5321, utf8=True)
    cfg, tr, found = lp.compare_with_spec(ck, r2, tu, fname, lambda term: machine_6531(tu, term, summary), spec, symbols, (0x40, 0x00) if ck.tier == 'quick' else tuple(sorted(set([0x40, 0x00] + [t for t in symbols if t < 0x100]))), f'{key}:{fname}')
    ck.sample({'alphabet': 'ASCII byte classes + NONASCII + ILLFORMED', 'symbols': len(symbols), 'configurations': cfg, 'transitions': tr})
    for c in LP.READING_CHOICES: ck.assume('spec reading: ' + c)
    ck.assume('callers pass end - start <= INT_MAX (the decoder keeps its length in an int); basic_email_check bounds it by 64 on the e-mail path')
