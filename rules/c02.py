"""C02 - ASCII local part is exactly word *("." word) under each RFC's character rules.
Each of is_822_local / is_5321_local / is_5322_local is turned into an automaton by abstract interpretation of
its own source (lib/scanex.py) and compared, by exhaustive joint exploration, with the mode's specification
DFA (spec/localpart.py) over the alphabet 0x01-0xFF: language equality for strings of every length."""
import scanex, forkmap
from spec import localpart as LP
from rules import lp
from report import AnalysisBroken

LEVEL = 'model_checking'
MODES = (822, 5321, 5322)


def run(ck):
    tus = lp.local_units()
    r = ck.rule('O2.1', 'L(is_<mode>_local) == L(spec DFA of the mode) over bytes 0x01-0xFF, all lengths, terminator byte in {@, NUL}', 3)
    jobs = []; meta = []
    for mode in MODES:
        key = f'src/is_{mode}_local.c'; fname = f'is_{mode}_local'
        if key not in tus: raise AnalysisBroken(f'{key} is not built')
        tu = tus[key]
        ck.analysed(units=[key], functions=[f'{key}:{fname}'])
        symbols, class_of, classes = lp.alphabet([tu.fn(fname)])
        spec = LP.local_spec(mode)
        terms = (0x40, 0x00) if ck.tier == 'quick' else tuple(sorted(set([0x40, 0x00] + [t for t in symbols if isinstance(t, int) and t < 0x100])))
        for term in terms:
            jobs.append(lp.spec_task(tu, (lambda tu, fname: (lambda term: scanex.ScannerMachine(tu, fname, term)))(tu, fname), spec, symbols, term))
            meta.append((mode, key, fname, tu, symbols))
    res = forkmap.forkmap(jobs)
    for mode in MODES:
        idx = [i for i, m in enumerate(meta) if m[0] == mode]
        _, key, fname, tu, symbols = meta[idx[0]]
        cfg, tr, found = lp.report_spec(ck, r, tu, fname, [res[i] for i in idx], f'{key}:{fname}')
        ck.sample({'mode': mode, 'byte_classes': len(symbols), 'configurations': cfg, 'transitions': tr,
                   'class_representatives': [scanex.show([s]) for s in symbols][:60]})
    for c in LP.READING_CHOICES: ck.assume('spec reading: ' + c)
    ck.assume('ctype predicates (iscntrl, ...) are applied to ASCII bytes only (the extractor checks the isascii guard), where every glibc locale agrees with the C locale')
    ck.assume('quick tier: the byte at *end is "@" (address context) or NUL (direct API call on a NUL-terminated local part); thorough tier: every byte class as the byte at *end (direct API calls on arbitrary ranges)')
    ck.notes.append('Exploration is exhaustive over the finite joint configuration space (scanner state x spec state x committed look-ahead window), so the verdict holds for every string length.')
