"""C17 - build options change exactly what they document and nothing else.
R17.1 Makefile plumbing (dry runs of all 8 combinations): X=ON adds exactly -DX to every compile line, the default has none.
R17.2 preprocessor identity: every unit except the two documented ones is byte-identical after preprocessing under
      all 8 combinations, and the option macros are mentioned nowhere else - this proves "every other decision
      unchanged" without looking at a single input.
O17.3 automata extracted under the options: RFC20 = default language minus unquoted # ^ ` { | } ~ (mode 6531 only);
      UNDERSCORE = host names with '_' as a letter; RFC5322 = mode 6531 judges pure-ASCII local parts as is_5322_local."""
import itertools, os, re, subprocess
import unitdb, scanex, forkmap
from scanex import END, NA, BAD
from spec import localpart as LP
from rules import lp
from rules.c03 import machine_6531, check_na_premise
from report import AnalysisBroken, REPO
from astutil import where

LEVEL = 'model_checking'
OPTS = unitdb.OPTS
DOCUMENTED = {'RFC6531_FOLLOW_RFC5322': {'src/is_6531_local.c'}, 'RFC6531_FOLLOW_RFC20': {'src/is_6531_local.c'}, 'LABELS_ALLOW_UNDERSCORE': {'src/is_ascii_domain.c'}}


def combos():
    for bits in itertools.product((False, True), repeat=3):
        yield {o: 'ON' for o, b in zip(OPTS, bits) if b}


def vname(opts):
    return '+'.join(sorted(o.split('_')[-1].lower() for o in opts)) or 'default'


def run(ck):
    # ---- R17.1
    r1 = ck.rule('R17.1', 'make: the default build passes none of the three -D flags; OPTION=ON adds exactly -DOPTION to every compile line and changes nothing else', 8)
    base = unitdb.parse_compile_lines(unitdb.make_dry_run({}))
    if not base: raise AnalysisBroken('no compile lines')
    for opts in combos():
        lines = unitdb.parse_compile_lines(unitdb.make_dry_run(opts))
        want = {'-D' + o for o in opts}
        why = []
        if len(lines) != len(base): why.append(f'{len(lines)} compile lines instead of {len(base)}')
        for (c0, a0), (c1, a1) in zip(base, lines):
            if c0 != c1: why.append('directory differs'); continue
            extra = [x for x in a1 if x not in a0]; missing = [x for x in a0 if x not in a1]
            # the library units get the flags; bin/ links against the library and may or may not repeat them
            src = [x for x in a1 if x.endswith('.c')][0]
            lib = not c1.rstrip('/').endswith('/bin')
            if missing: why.append(f'{src}: flags dropped {missing}')
            if lib and set(extra) != want: why.append(f'{src}: extra flags {extra}, want {sorted(want)}')
            if not lib and not set(extra) <= want: why.append(f'{src}: extra flags {extra}')
            if not opts and any(x.startswith('-D') and x[2:] in OPTS for x in a1): why.append(f'{src}: default build defines an option')
        r1.instance(f'Makefile:{vname(opts)}', ok=not why, wclass='make-flags', what='; '.join(sorted(set(why))[:4]))
    ck.analysed(units=['Makefile', 'bin/Makefile'])
    # ---- R17.2
    r2 = ck.rule('R17.2', 'preprocessed text of every unit other than the documented one(s) is identical under all 8 option combinations (headers included through the units that use them), and each option does change its documented unit', 20)
    variants = {}
    for opts in combos():
        us = [u for u in unitdb.units(opts, vname(opts)) if u.group in ('core', 'idn2', 'cli')]
        paths = unitdb.parallel(unitdb.dump_pp, us)
        variants[vname(opts)] = (opts, {u.rel: open(p, 'rb').read() for u, p in zip(us, paths)})
    ref = variants['default'][1]
    for rel in sorted(ref):
        diff = []
        for vn, (opts, texts) in variants.items():
            if texts.get(rel) != ref[rel]:
                allowed = any(rel in DOCUMENTED[o] for o in opts)
                if not allowed: diff.append(vn)
        r2.instance(f'{rel}', ok=not diff, wclass='preprocessed-differs', what=f'{rel} preprocesses differently under {diff}: an option leaks into a unit it does not document')
        ck.analysed(units=[rel])
    for o in OPTS:
        # the documented unit must actually react to its option (otherwise the option is dead)
        on = variants[vname({o: 'ON'})][1]
        for rel in DOCUMENTED[o]:
            r2.instance(f'{rel}:{o}', ok=on.get(rel) != ref.get(rel), wclass='option-dead', what=f'{o}=ON does not change {rel}')
    # ---- O17.3
    o3 = ck.rule('O17.3', 'languages under the options: RFC20 = default minus unquoted #^`{|}~ (6531 only); RFC5322 = mode 6531 judges pure-ASCII local parts as is_5322_local does; each with the other option at both values', 3)
    jobs = []; meta = []
    for f5322 in (False, True):
        for f20 in (False, True):
            if not f5322 and not f20: continue              # the default build is C03
            opts = {}
            if f5322: opts['RFC6531_FOLLOW_RFC5322'] = 'ON'
            if f20: opts['RFC6531_FOLLOW_RFC20'] = 'ON'
            vn = vname(opts)
            tus = lp.local_units(opts, vn)
            tu = tus[f'{vn}:src/is_6531_local.c']
            check_na_premise(ck, tu, 'is_6531_local', 'src/is_6531_local.c')
            if not f5322:
                symbols, _, _ = lp.alphabet([tu.fn('is_6531_local')], utf8=True)
                spec = LP.local_spec(5321, utf8=True, rfc20=f20)
                for term in (0x40, 0x00):
                    jobs.append(lp.spec_task(tu, (lambda tu: (lambda t: machine_6531(tu, t)))(tu), spec, symbols, term)); meta.append(('spec', vn, tu))
            else:
                tu5 = tus[f'{vn}:src/is_5322_local.c']
                symbols, _, _ = lp.alphabet([tu.fn('is_6531_local'), tu5.fn('is_5322_local')], utf8=False)
                asc = [s for s in symbols if s < 0x80]
                for term in (0x40, 0x00):
                    jobs.append(pair_task(tu, tu5, asc, term, f20)); meta.append(('pair', vn, tu))
    res = forkmap.forkmap(jobs)
    byv = {}
    for (kind, vn, tu), r in zip(meta, res): byv.setdefault((kind, vn), []).append((tu, r))
    for (kind, vn), items in sorted(byv.items()):
        tu = items[0][0]; site = f'src/is_6531_local.c:is_6531_local[{vn}]'
        if kind == 'spec':
            lp.report_spec(ck, o3, tu, 'is_6531_local', [r for _, r in items], 'src/is_6531_local.c:is_6531_local', f'[{vn}]')
        else:
            cfg = sum(r[0] for _, r in items); tr = sum(r[1] for _, r in items); ck.mc(cfg, tr)
            found = {}
            for _, r in items:
                for cls, f in r[2].items():
                    if cls not in found or len(f[0]) < len(found[cls][0]): found[cls] = f
            if not found: o3.instance(site, ok=True, detail={'configurations': cfg, 'transitions': tr})
            for cls, (w, ats, rcs) in sorted(found.items()):
                o3.instance(site, ok=False, wclass=cls, witness=scanex.show(w),
                            what=f'built with {vn}: on the pure-ASCII local part {scanex.show(w)!r} is_6531_local returns {rcs[0]} (at {ats[0]}) but is_5322_local returns {rcs[1]} (at {ats[1]})')
        ck.analysed(units=[f'{vn}:src/is_6531_local.c'], functions=[site])
    # ---- underscore: the C04 rules with '_' as a letter
    from rules import c04
    c04.run(ck, {'LABELS_ALLOW_UNDERSCORE': 'ON'}, 'underscore', underscore=True, tag='[underscore]')
    ck.assume('options are passed to make as OPTION=ON, as the Makefile documents')


def pair_task(tu, tu5, symbols, term, rfc20):
    def task():
        found = {}
        m1 = machine_6531(tu, term); m2 = scanex.ScannerMachine(tu5, 'is_5322_local', term)
        def leaf(results, witness):
            (r1, n1), (r2, n2) = results
            w = [s for s in witness if s != END]
            if (r1 == 0) == (r2 == 0): return
            if rfc20 and r2 == 0 and has_unquoted_rfc20(w): return       # documented difference of the other option
            cls = ('accepts' if r1 == 0 else 'rejects:' + lp.errname(tu, r1)) + '-where-5322-' + ('accepts' if r2 == 0 else 'rejects')
            if cls not in found or len(w) < len(found[cls][0]):
                found[cls] = (w, [where(n1) if n1 else '?', where(n2) if n2 else '?'], [lp.errname(tu, r1), lp.errname(tu, r2)])
        ex = scanex.Explorer([m1, m2], symbols, term); ex.run(leaf)
        return ex.configs, ex.transitions, found
    return task


def has_unquoted_rfc20(w):
    """does the (5322-valid) local part contain one of # ^ ` { | } ~ outside quotes?"""
    inq = False; esc = False
    for b in w:
        if esc: esc = False; continue
        if inq:
            if b == 0x5c: esc = True
            elif b == 0x22: inq = False
            continue
        if b == 0x22: inq = True
        elif b in LP.RFC20: return True
    return False
