"""Engine C: facts from -O0 -g textual LLVM IR (regular enough at -O0): global definitions and their mutability,
per function the call targets, and for every store the base object of the address (alloca / parameter / global /
call result), resolved flow-insensitively through local pointer variables."""
import re
from report import AnalysisBroken


def _split_top(t):
    out = []; d = 0; cur = ''
    for ch in t:
        if ch in '([{<': d += 1
        elif ch in ')]}>': d -= 1
        if ch == ',' and d == 0: out.append(cur.strip()); cur = ''
        else: cur += ch
    out.append(cur.strip())
    return out


def _last_operand(part):
    """the value operand of `<type> <value>`: a trailing %name / @name / constant, or a constant expression"""
    m = re.search(r'((?:getelementptr|bitcast)\b.*)$', part)
    if m: return m.group(1)
    return part.split()[-1]


class Fn:
    def __init__(self, name, params, linkage):
        self.name = name; self.params = params; self.linkage = linkage
        self.defs = {}        # %name -> (op, operands...)
        self.stores = []      # (value, pointer, line)
        self.calls = []       # (callee or None, args, line, result)
        self.allocas = {}     # %name -> type text
        self.rets = []        # returned operands
        self.dbg = {}


class Module:
    def __init__(self, path):
        self.path = path
        self.globals = {}     # name -> dict(kind='global'|'constant', linkage, external, text)
        self.functions = {}
        self.declared = set()
        self.dbgline = {}
        self._parse(open(path).read())

    def _parse(self, text):
        lines = text.splitlines()
        for l in lines:
            m = re.match(r'^(![0-9]+) = !DILocation\(line: (\d+)', l)
            if m: self.dbgline[m.group(1)] = int(m.group(2))
        cur = None
        for l in lines:
            if cur is None:
                m = re.match(r'^@([\w.$"-]+) = (.*)$', l)
                if m:
                    name, rest = m.group(1).strip('"'), m.group(2)
                    mm = re.match(r'((?:\w+ )*?)(global|constant) ', rest)
                    if mm:
                        quals = mm.group(1).split()
                        self.globals[name] = {'kind': mm.group(2), 'external': 'external' in quals, 'linkage': quals, 'text': l[:200],
                                              'tls': 'thread_local' in rest}
                    continue
                m = re.match(r'^declare .*?@([\w.$]+)\(', l)
                if m: self.declared.add(m.group(1)); continue
                m = re.match(r'^define (.*?)@([\w.$]+)\((.*?)\)', l)
                if m:
                    params = re.findall(r'%([\w.]+)(?=,|$|\))', m.group(3) + ',')
                    cur = Fn(m.group(2), params, m.group(1).split())
                    self.functions[cur.name] = cur
                continue
            if l.startswith('}'): cur = None; continue
            s = l.strip()
            dbg = None
            md = re.search(r'!dbg (![0-9]+)', s)
            if md: dbg = self.dbgline.get(md.group(1))
            if s.startswith('store '):
                parts = _split_top(s[6:])
                if len(parts) >= 2:
                    val = _last_operand(parts[0]); ptr = _last_operand(parts[1])
                    cur.stores.append((val, ptr, dbg, s)); continue
            m = re.match(r'(?:%([\w.]+) = )?(?:tail |musttail |notail )?call .*?(@[\w.$]+|%[\w.]+)\((.*)\)', s)
            if m and ' call ' in ' ' + s:
                tgt = m.group(2); args = re.findall(r'(?:^|, )(?:[^,()]|\([^()]*\))*?((?:%|@)[\w.$]+|null|-?\d+)(?=,|$)', m.group(3))
                cur.calls.append((tgt[1:] if tgt.startswith('@') else None, tgt, args, dbg, m.group(1)))
                if m.group(1): cur.defs['%' + m.group(1)] = ('call', tgt)
                continue
            m = re.match(r'ret (?!void).*?((?:%|@)[\w.$]+|null|-?\d+)(?:,|$)', s)
            if m: cur.rets.append(m.group(1)); continue
            m = re.match(r'%([\w.]+) = alloca (.+?),', s)
            if m: cur.allocas['%' + m.group(1)] = m.group(2); cur.defs['%' + m.group(1)] = ('alloca',); continue
            m = re.match(r'%([\w.]+) = load .+?, .+?\* (\S+?),', s)
            if m and re.fullmatch(r'[%@][\w.$]+', m.group(2)): cur.defs['%' + m.group(1)] = ('load', m.group(2)); continue
            m = re.match(r'%([\w.]+) = load (?:volatile )?.*\* ([%@][\w.$]+), align', s)      # types with commas (function pointers)
            if m: cur.defs['%' + m.group(1)] = ('load', m.group(2)); continue
            m = re.match(r'%([\w.]+) = getelementptr (?:inbounds )?.+?, .+?\* (\S+?),', s)
            if m: cur.defs['%' + m.group(1)] = ('gep', m.group(2)); continue
            m = re.match(r'%([\w.]+) = (?:bitcast|addrspacecast) .+? (\S+) to ', s)
            if m: cur.defs['%' + m.group(1)] = ('cast', m.group(2)); continue
            m = re.match(r'%([\w.]+) = (?:inttoptr|ptrtoint) .+? (\S+) to ', s)
            if m: cur.defs['%' + m.group(1)] = ('cast', m.group(2)); continue
            m = re.match(r'%([\w.]+) = phi .+? (.*)', s)
            if m: cur.defs['%' + m.group(1)] = ('phi', re.findall(r'\[ (\S+?),', m.group(2))); continue
            m = re.match(r'%([\w.]+) = select .+?, .+? (\S+?), .+? (\S+?)(?:,|$)', s)
            if m: cur.defs['%' + m.group(1)] = ('phi', [m.group(2), m.group(3)]); continue
            m = re.match(r'%([\w.]+) = ', s)
            if m: cur.defs['%' + m.group(1)] = ('other', s)

    # ---- base objects
    def bases(self, fn, v, seen=None):
        """set of base objects a pointer value may refer to: ('alloca', name) | ('param', name) | ('global', name) |
        ('call', callee) | ('const',) | ('unknown', text)"""
        seen = seen if seen is not None else set()
        if v in seen: return set()
        seen.add(v)
        if v.startswith('@'): return {('global', v[1:])}
        if v in ('null', 'undef') or re.fullmatch(r'-?\d+', v): return {('const',)}
        if v.startswith('getelementptr') or v.startswith('bitcast'):
            m = re.search(r'@([\w.$]+)', v)
            return {('global', m.group(1))} if m else {('unknown', v)}
        name = v[1:] if v.startswith('%') else v
        if name in fn.params and v not in fn.defs: return {('param', name)}
        d = fn.defs.get(v)
        if d is None: return {('unknown', v)}
        if d[0] == 'alloca': return {('alloca', name)}
        if d[0] in ('gep', 'cast'): return self.bases(fn, d[1], seen)
        if d[0] == 'phi':
            out = set()
            for x in d[1]: out |= self.bases(fn, x, seen)
            return out
        if d[0] == 'call': return {('call', d[1].lstrip('@'))}
        if d[0] == 'load':
            # a pointer read from memory: if from a local slot, whatever was stored into that slot
            src = self.bases(fn, d[1], set())
            out = set()
            for b in src:
                if b[0] == 'alloca':
                    slot = '%' + b[1]
                    stored = [val for val, ptr, _, _ in fn.stores if ptr == slot]
                    if not stored: out.add(('uninit', b[1]))
                    for val in stored: out |= self.bases(fn, val, seen)
                elif b[0] == 'param': out.add(('deref-param', b[1]))
                elif b[0] == 'global': out.add(('deref-global', b[1]))
                elif b[0] in ('deref-param', 'call', 'deref-global'): out.add(('deref', b))
                else: out.add(('unknown', v))
            return out
        return {('unknown', v)}

    def returns_fresh(self, fname, alloc=('malloc', 'calloc', 'realloc', 'strndup', 'strdup'), depth=0):
        """does the function return only memory it allocated itself (or NULL)?  -> an allocator wrapper: what it returns
        is the caller's own object"""
        fn = self.functions.get(fname)
        if fn is None or not fn.rets or depth > 3: return False
        for r in fn.rets:
            for b in self.bases(fn, r):
                if b[0] == 'const': continue
                if b[0] == 'call' and (b[1] in alloc or self.returns_fresh(b[1], alloc, depth + 1)): continue
                return False
        return True

    def store_targets(self, fn):
        """[(bases of the address, line, text)] for every store that is not the spill of a parameter or a write to a
        scalar local slot"""
        out = []
        for val, ptr, line, text in fn.stores:
            out.append((self.bases(fn, ptr), line, text))
        return out
