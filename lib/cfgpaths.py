"""Engine A: path summaries over clang's AST.

For a function the engine enumerates every entry->return path of the structured control flow
(if/else, switch with fall-through, short-circuit && || !, ?:, do{}while(0), goto to labels of enclosing
blocks, loops as "zero iterations | one iteration then havoc") and records, per path,

  ('cond',  atom, truth, node)        a branch decision on an atomic condition
  ('set',   lvalue, value, node)      an assignment (locals are substituted by their symbolic values)
  ('call',  callee, args, sym, node)  a call; its result is named  callee#k  (k-th call of that callee in
                                      source order within the function, so the name is the same on every
                                      path and in every twin)
  ('return', value, node) / ('goto', label, node) / ('loop', tag, node) / ('abort', callee, node)

Expressions are rendered to normalised strings: parentheses and value-preserving casts dropped, enum
constants by name, macro constants folded by clang, null-pointer constants as NULL, `-1 * (X)` as -X,
constants on the right of == / !=.  Callees are resolved through referencedDecl (never by spelling)."""
import json, re
from astutil import strip, walk, loc_of, where, callee_name
from report import AnalysisBroken

MAX_PATHS = 20000
NORETURN = ('abort', '__assert_fail', 'exit', '_exit', '__assert', '__assert_perror_fail')


class Path:
    __slots__ = ('events', 'env', 'assume', 'labels_seen', 'fresh', 'site_gen')
    def __init__(self):
        self.events = []; self.env = {}; self.assume = {}; self.labels_seen = (); self.fresh = 0; self.site_gen = {}
    def copy(self):
        p = Path(); p.events = list(self.events); p.env = dict(self.env); p.assume = dict(self.assume)
        p.labels_seen = self.labels_seen; p.fresh = self.fresh; p.site_gen = dict(self.site_gen)
        return p
    # ---- queries
    def conds(self): return [(e[1], e[2]) for e in self.events if e[0] == 'cond']
    def calls(self, name=None): return [e for e in self.events if e[0] == 'call' and (name is None or e[1] == name)]
    def sets(self, lv=None): return [e for e in self.events if e[0] == 'set' and (lv is None or e[1] == lv)]
    def ret(self):
        for e in reversed(self.events):
            if e[0] == 'return': return e
        return None
    def index(self, pred):
        for i, e in enumerate(self.events):
            if pred(e): return i
        return -1
    def last_set(self, lv, before=None):
        ev = self.events if before is None else self.events[:before]
        for e in reversed(ev):
            if e[0] == 'set' and e[1] == lv: return e
        return None
    def passed(self, atom, truth, before=None):
        ev = self.events if before is None else self.events[:before]
        return any(e[0] == 'cond' and e[1] == atom and e[2] == truth for e in ev)
    def text(self):
        out = []
        for e in self.events:
            if e[0] == 'cond': out.append(('' if e[2] else '!') + e[1])
            elif e[0] == 'set': out.append(f'{e[1]} := {e[2]}')
            elif e[0] == 'call': out.append(f'{e[3]} = {e[1]}({", ".join(e[2])})')
            elif e[0] == 'return': out.append(f'return {e[1]}')
            else: out.append(f'{e[0]} {e[1]}')
        return out


class Engine:
    def __init__(self, tu, fname, fold_enums=False, again=True):
        self.tu = tu; self.fname = fname; self.fn = tu.fn(fname); self.fold = fold_enums
        self.again = again            # after the first loop iteration also explore one generic (havocked) iteration
        self.open_paths = False       # for(;;): keep the paths that complete the generic iteration without leaving (they end in loop:open, no return)
        self.body = tu.body(fname)
        self.call_ids = {}            # CallExpr node id -> symbolic name
        per = {}
        for n in walk(self.body):
            if n.get('kind') == 'CallExpr':
                nm = callee_name(n) or self._indirect_name(n)
                per[nm] = per.get(nm, 0) + 1
                self.call_ids[n['id']] = f'{nm}#{per[nm]}'
        self.label_names = {}
        for n in walk(self.body):
            if n.get('kind') == 'LabelStmt': self.label_names[n['declId']] = n['name']
        self.npaths = 0

    def _indirect_name(self, call):
        c = strip(call['inner'][0])
        if c.get('kind') == 'MemberExpr': return '(*' + c['name'] + ')'
        if c.get('kind') == 'DeclRefExpr': return '(*' + c['referencedDecl']['name'] + ')'
        return '(*?)'

    # ------------------------------------------------------------------ expressions
    def render(self, n, p, lvalue=False):
        k = n.get('kind')
        if k in ('ImplicitCastExpr', 'CStyleCastExpr'):
            if n.get('castKind') == 'NullToPointer': return 'NULL'
            return self.render(n['inner'][0], p, lvalue)
        if k in ('ParenExpr', 'ConstantExpr'): return self.render(n['inner'][0], p, lvalue)
        if k == 'IntegerLiteral': return str(int(n['value']))
        if k == 'CharacterLiteral':
            v = int(n['value'])
            return repr(chr(v)) if 32 <= v < 127 else f"'\\x{v:02x}'"
        if k == 'CXXBoolLiteralExpr': return '1' if n['value'] else '0'
        if k == 'StringLiteral': return n['value']
        if k == 'GNUNullExpr': return 'NULL'
        if k == 'DeclRefExpr':
            rd = n['referencedDecl']; nm = rd['name']
            if rd.get('kind') == 'EnumConstantDecl': return str(self.tu.enums[nm]) if self.fold else nm
            if rd.get('kind') == 'FunctionDecl': return nm
            if lvalue: return nm
            return p.env.get(nm, nm)
        if k == 'MemberExpr':
            base = self.render(n['inner'][0], p)
            key = base + ('->' if n.get('isArrow') else '.') + n['name']
            if lvalue: return key
            return p.env.get(key, key)
        if k == 'UnaryOperator':
            op = n['opcode']; sub = n['inner'][0]
            if op in ('++', '--'):
                lv = self.render(sub, p, lvalue=True); old = self.render(sub, p)
                new = f'({old} {op[0]} 1)'
                p.env[lv] = new; p.events.append(('set', lv, new, n))
                return old if n.get('isPostfix') else new
            if op == '&': return '&' + self.render(sub, p, lvalue=True)
            v = self.render(sub, p)
            if op == '*':
                key = '*' + v
                return key if lvalue else p.env.get(key, key)
            if op == '-': return '-' + v
            if op == '!': return f'!{v}'
            if op == '+': return v
            return f'{op}{v}'
        if k == 'BinaryOperator':
            op = n['opcode']
            if op == '=': return self.assign(n, p)
            if op == ',':
                self.render(n['inner'][0], p); return self.render(n['inner'][1], p)
            a = self.render(n['inner'][0], p); b = self.render(n['inner'][1], p)
            if op == '*' and a == '-1': return self._neg(b)
            if op == '*' and b == '-1': return self._neg(a)
            if op in ('==', '!=') and (_is_const(a) and not _is_const(b)): a, b = b, a
            f = _fold(op, a, b)
            if f is not None: return f
            return f'({a} {op} {b})'
        if k == 'CompoundAssignOperator':
            lv = self.render(n['inner'][0], p, lvalue=True); old = self.render(n['inner'][0], p)
            v = self.render(n['inner'][1], p); new = f'({old} {n["opcode"][:-1]} {v})'
            p.env[lv] = new; p.events.append(('set', lv, new, n)); return new
        if k == 'ArraySubscriptExpr':
            key = f"{self.render(n['inner'][0], p)}[{self.render(n['inner'][1], p)}]"
            return key if lvalue else p.env.get(key, key)
        if k == 'CallExpr':
            nm = callee_name(n)
            args = tuple(self.render(a, p) for a in n['inner'][1:])
            if nm is None: nm = self._indirect_name(n)
            sym = self.call_ids[n['id']] + "'" * p.site_gen.get(n['id'], 0)
            p.events.append(('call', nm, args, sym, n))
            for a in args:                      # an object whose address is passed may be written by the callee
                if a.startswith('&'):
                    p.env[a[1:]] = f'{a[1:]}@{sym}'
            if nm in NORETURN: p.events.append(('abort', nm, n))
            return sym
        if k == 'UnaryExprOrTypeTraitExpr':
            t = n.get('argType', {}).get('qualType')
            if t is None and n.get('inner'):
                t = strip(n['inner'][0]).get('type', {}).get('qualType') or ('expr:' + self.render(n['inner'][0], p.copy()))
            if n.get('name') == 'sizeof' or n.get('name') is None:
                import re as _re
                m = _re.fullmatch(r'(?:const )?(?:unsigned |signed )?char\[(\d+)\]', t or '')
                if m: return m.group(1)                    # sizeof of a char array is its element count
                if t in ('char', 'unsigned char', 'signed char', 'const char'): return '1'
            return f'sizeof({t})'
        if k == 'ConditionalOperator':
            # value-level ?: (conditions fork in cond_paths); keep syntactic
            c = self.render(n['inner'][0], p)
            if _is_int(c): return self.render(n['inner'][1 if int(c) else 2], p)
            a = self.render(n['inner'][1], p.copy()); b = self.render(n['inner'][2], p.copy())
            return f'({c} ? {a} : {b})'
        if k == 'InitListExpr': return '{' + ', '.join(self.render(c, p) for c in n.get('inner', [])) + '}'
        if k == 'ImplicitValueInitExpr': return '0'
        if k == 'StmtExpr': return '<stmt-expr>'
        if k == 'PredefinedExpr': return '__func__'
        if k == 'VAArgExpr': return '<va_arg>'
        raise AnalysisBroken(f'{self.fname}: unsupported expression kind {k} at {where(n)}')

    def _neg(self, v):
        return v[1:] if v.startswith('-') and _is_atomish(v[1:]) else '-' + v

    def assign(self, n, p):
        rhs = n['inner'][1]
        v = self.render(rhs, p)
        if strip(rhs).get('kind') == 'BinaryOperator' and strip(rhs).get('opcode') == '=':
            v = self.render(strip(rhs)['inner'][0], p)        # chained a = b = c: value of b after assignment
        lv = self.render(n['inner'][0], p, lvalue=True)
        if re.search(r'->|\[|\*|\.', lv):
            # a local that still holds the object's previous value must not be mistaken for the new one
            pat = re.compile(r'(?<![\w>.])' + re.escape(lv) + r'(?![\w\[(@]|->|\.)')
            for k_, val in list(p.env.items()):
                if k_ != lv and isinstance(val, str) and pat.search(val): p.env[k_] = pat.sub(lambda m_: lv + '@pre', val)
            v = pat.sub(lambda m_: lv + '@pre', v) if isinstance(v, str) and pat.search(v) and v != lv else v
        p.env[lv] = v; p.events.append(('set', lv, v, n))
        return v

    # ------------------------------------------------------------------ conditions
    def cond_paths(self, n, p):
        """yield (path, truth), forking on the atoms of && || ! ?:"""
        k = n.get('kind')
        if k in ('ImplicitCastExpr', 'ParenExpr', 'ConstantExpr'):
            yield from self.cond_paths(n['inner'][0], p); return
        if k == 'UnaryOperator' and n['opcode'] == '!':
            for q, t in self.cond_paths(n['inner'][0], p): yield q, not t
            return
        if k == 'BinaryOperator' and n['opcode'] in ('&&', '||'):
            isand = n['opcode'] == '&&'
            for q, t in self.cond_paths(n['inner'][0], p):
                if t != isand: yield q, t
                else: yield from self.cond_paths(n['inner'][1], q)
            return
        if k == 'ConditionalOperator':
            for q, t in self.cond_paths(n['inner'][0], p):
                yield from self.cond_paths(n['inner'][1 if t else 2], q)
            return
        if k == 'BinaryOperator' and n['opcode'] in ('==', '!=') :
            # (x != 0) / (x == 0) on a boolean-valued sub-condition keeps forking inside
            a, b = n['inner']
            sb = strip(b)
            if sb.get('kind') == 'IntegerLiteral' and int(sb['value']) == 0 and _boolean_valued(strip(a)):
                for q, t in self.cond_paths(a, p): yield q, (t if n['opcode'] == '!=' else not t)
                return
        q = p.copy(); atom = self.render(n, q)
        if atom in ('0', 'NULL'): yield q, False; return
        if _is_int(atom): yield q, int(atom) != 0; return
        # normalise negated forms so that `x != 0`, `x`, `!(x == 0)` share one atom
        truth_flip = False
        for pat_op, flip in (('!=', False), ('==', True)):
            suf = f' {pat_op} 0)'; suf2 = f' {pat_op} NULL)'
            for s_ in (suf, suf2):
                if atom.startswith('(') and atom.endswith(s_) and _balanced(atom[1:-len(s_)]):
                    atom = atom[1:-len(s_)]; truth_flip = flip; break
            else: continue
            break
        if atom in ('0', 'NULL'): yield q, truth_flip; return
        if _is_int(atom): yield q, ((int(atom) != 0) != truth_flip); return
        if atom in q.assume:
            t = q.assume[atom]; yield q, (not t if truth_flip else t); return
        for t in (True, False):
            r = q.copy(); r.assume[atom] = t; r.events.append(('cond', atom, t, n))
            yield r, (not t if truth_flip else t)

    # ------------------------------------------------------------------ statements (CPS)
    def paths(self):
        self.npaths = 0
        out = self.run([self.body], Path(), lambda q: [self._end(q)], {}, None, None)
        return out

    def _end(self, q):
        self.npaths += 1
        if self.npaths > MAX_PATHS: raise AnalysisBroken(f'{self.fname}: more than {MAX_PATHS} paths')
        return q

    def run(self, stmts, p, k, labels, brk, cont):
        if not stmts: return k(p)
        st, rest = stmts[0], stmts[1:]
        kind = st.get('kind')
        nxt = lambda q: self.run(rest, q, k, labels, brk, cont)
        if kind == 'CompoundStmt':
            items = st.get('inner', [])
            return self.run_block(items, p, nxt, labels, brk, cont)
        if kind == 'NullStmt': return nxt(p)
        if kind == 'DeclStmt':
            q = p.copy()
            for v in st.get('inner', []):
                if v.get('kind') != 'VarDecl': continue
                init = [c for c in v.get('inner', []) if 'Comment' not in c.get('kind', '')]
                ic = init[0] if init else None
                while ic is not None and ic.get('kind') in ('ImplicitCastExpr', 'ParenExpr', 'CStyleCastExpr'): ic = ic['inner'][0]
                if ic is not None and ic.get('kind') == 'ConditionalOperator' and v.get('storageClass') != 'static' and len([x for x in st.get('inner', []) if x.get('kind') == 'VarDecl']) == 1:
                    # T x = c ? a : b;  forks like the assignment form
                    out = []
                    for q2, t in self.cond_paths(ic['inner'][0], q):
                        val = self.render(ic['inner'][1 if t else 2], q2)
                        q2.env[v['name']] = val; q2.events.append(('set', v['name'], val, v))
                        out += nxt(q2)
                    return out
                if v.get('storageClass') == 'static':
                    # a static local keeps its value between calls: its initialiser says nothing about this call
                    if not re.search(r'\[\d*\]', v.get('type', {}).get('qualType', '')): q.env[v['name']] = f"{v['name']}@static"
                    continue
                if init:
                    val = self.render(init[0], q); q.env[v['name']] = val; q.events.append(('set', v['name'], val, v))
                else:
                    q.env.pop(v['name'], None)
            return nxt(q)
        if kind == 'BinaryOperator' and st.get('opcode') == '=':
            # x = c ? a : b;  as a statement is two paths, like  if (c) x = a; else x = b;
            rc_ = st['inner'][1]
            while rc_.get('kind') in ('ImplicitCastExpr', 'ParenExpr', 'CStyleCastExpr'): rc_ = rc_['inner'][0]
            if rc_.get('kind') == 'ConditionalOperator':
                out = []
                for q, t in self.cond_paths(rc_['inner'][0], p):
                    v = self.render(rc_['inner'][1 if t else 2], q)
                    lv = self.render(st['inner'][0], q, lvalue=True)
                    q.env[lv] = v; q.events.append(('set', lv, v, st))
                    out += nxt(q)
                return out
        if kind == 'IfStmt':
            c = st['inner']; out = []
            for q, t in self.cond_paths(c[0], p):
                if t: out += self.run([c[1]], q, nxt, labels, brk, cont)
                elif len(c) > 2: out += self.run([c[2]], q, nxt, labels, brk, cont)
                else: out += nxt(q)
            return out
        if kind == 'ReturnStmt':
            e0 = st['inner'][0] if st.get('inner') else None
            ec = e0
            while ec is not None and ec.get('kind') in ('ImplicitCastExpr', 'ParenExpr', 'CStyleCastExpr'): ec = ec['inner'][0]
            if ec is not None and ec.get('kind') == 'ConditionalOperator':
                # return c ? a : b  is two paths, like  if (c) return a; return b;
                outp = []
                for q, t in self.cond_paths(ec['inner'][0], p):
                    v = self.render(ec['inner'][1 if t else 2], q)
                    q.events.append(('return', v, st)); outp.append(self._end(q))
                return outp
            q = p.copy(); v = self.render(e0, q) if e0 is not None else None
            q.events.append(('return', v, st)); return [self._end(q)]
        if kind == 'BreakStmt':
            if brk is None: raise AnalysisBroken(f'{self.fname}: break outside loop/switch')
            return brk(p)
        if kind == 'ContinueStmt':
            if cont is None: raise AnalysisBroken(f'{self.fname}: continue outside loop')
            return cont(p)
        if kind == 'GotoStmt':
            name = self.label_names[st['targetLabelDeclId']]
            if name not in labels: raise AnalysisBroken(f'{self.fname}: goto {name} into a block not yet entered at {where(st)}')
            if name in p.labels_seen: raise AnalysisBroken(f'{self.fname}: backward goto {name}')
            q = p.copy(); q.events.append(('goto', name, st)); q.labels_seen = p.labels_seen + (name,)
            return labels[name](q)
        if kind == 'LabelStmt':
            return self.run([st['inner'][0]] + rest, p, k, labels, brk, cont)
        if kind == 'DoStmt':
            body, cond = st['inner']
            q0 = p.copy()
            if self.render(cond, q0) == '0':
                return self.run([body], p, nxt, labels, nxt, nxt)
            return self.loop(st, None, cond, None, body, p, nxt, labels, do=True)
        if kind == 'WhileStmt':
            cond, body = st['inner'][-2], st['inner'][-1]
            return self.loop(st, None, cond, None, body, p, nxt, labels)
        if kind == 'ForStmt':
            init, _cv, cond, inc, body = st['inner']
            return self.loop(st, init, cond, inc, body, p, nxt, labels)
        if kind == 'SwitchStmt':
            return self.switch(st, p, nxt, labels, cont)
        if kind in ('CaseStmt', 'DefaultStmt'):
            return self.run([st['inner'][-1]] + rest, p, k, labels, brk, cont)
        # expression statements
        if kind == 'ConditionalOperator' or (kind in ('ParenExpr', 'ImplicitCastExpr', 'CStyleCastExpr') and strip(st).get('kind') == 'ConditionalOperator'):
            # glibc assert(): (cond) ? (void)0 : __assert_fail(...)
            inner = strip(st); out = []
            for q, t in self.cond_paths(inner['inner'][0], p):
                r = q
                self.render(inner['inner'][1 if t else 2], r)
                if r.events and r.events[-1][0] == 'abort': out.append(self._end(r))
                else: out += nxt(r)
            return out
        q = p.copy(); self.render(st, q)
        if q.events and q.events[-1][0] == 'abort': return [self._end(q)]
        return nxt(q)

    def run_block(self, items, p, k, labels, brk, cont):
        labels = dict(labels)
        for i, it in enumerate(items):
            m = it
            while m.get('kind') == 'LabelStmt':
                labels[m['name']] = (lambda i_: (lambda q: self.run(items[i_:], q, k, labels, brk, cont)))(i)
                m = m['inner'][0]
        return self.run(items, p, k, labels, brk, cont)

    def assigned_in(self, n):
        out = set()
        for m in walk(n):
            kd = m.get('kind')
            if kd == 'BinaryOperator' and m.get('opcode') == '=' or kd == 'CompoundAssignOperator':
                out.add(self.render(m['inner'][0], Path(), lvalue=True))
            elif kd == 'UnaryOperator' and m.get('opcode') in ('++', '--'):
                out.add(self.render(m['inner'][0], Path(), lvalue=True))
            elif kd == 'VarDecl': out.add(m['name'])
        return out

    def loop(self, st, init, cond, inc, body, p, nxt, labels, do=False):
        """zero iterations, or one iteration followed by havoc of everything the loop assigns"""
        q = p.copy()
        if init is not None and init.get('kind'):
            if init['kind'] == 'DeclStmt': return self.run([init], q, lambda r: self.loop(st, None, cond, inc, body, r, nxt, labels, do), labels, None, None)
            self.render(init, q)
        out = []
        tag = f'L{loc_of(st)[1]}'
        havoc_vars = self.assigned_in(st)
        call_sites = [m['id'] for m in walk(st) if m.get('kind') == 'CallExpr']
        def exit_(r):
            return nxt(r)
        def after_iter(r, depth=0):
            r = r.copy()
            if inc is not None and inc.get('kind'): self.render(inc, r)
            r.events.append(('loop', tag + ':backedge', st))
            r.fresh += 1
            for cid in call_sites: r.site_gen[cid] = r.site_gen.get(cid, 0) + 1     # a later iteration's calls are new values
            for v in havoc_vars: r.env[v] = f'{v}@{tag}' + ("'" * depth)
            r.assume = {a: t for a, t in r.assume.items() if not any(_mentions(a, v) for v in havoc_vars)}
            # after the first (precise) iteration: either leave, or run one more *generic* iteration from the
            # havocked loop head (covers returns/breaks taken in any later iteration), then leave
            res = []
            if cond is not None and cond.get('kind'):
                for s_, t in self.cond_paths(cond, r):
                    if not t: res += exit_(s_)
                    elif depth == 0 and self.again:
                        s_.events.append(('loop', tag + ':again', st))
                        res += self.run([body], s_, lambda x: after_iter(x, 1), labels, exit_, lambda x: after_iter(x, 1))
                return res
            if depth == 0 and self.again:
                r.events.append(('loop', tag + ':again', st))
                return self.run([body], r, lambda x: after_iter(x, 1), labels, exit_, lambda x: after_iter(x, 1))
            if depth == 1 and self.open_paths:
                r.events.append(('loop', tag + ':open', st)); return [self._end(r)]
            return []          # for(;;) leaves only through break/return
        def iterate(r):
            return self.run([body], r, after_iter, labels, exit_, after_iter)
        if do:
            return iterate(q)
        if cond is None or not cond.get('kind'):
            return iterate(q)
        for r, t in self.cond_paths(cond, q):
            if t:
                r.events.append(('loop', tag + ':enter', st)); out += iterate(r)
            else: out += exit_(r)
        return out

    def switch(self, st, p, nxt, labels, cont):
        q0 = p.copy(); v = self.render(st['inner'][-2] if len(st['inner']) > 2 else st['inner'][0], q0)
        body = st['inner'][-1]
        items = body.get('inner', []) if body.get('kind') == 'CompoundStmt' else [body]
        flat = []
        def fl(s_):
            if s_.get('kind') == 'CaseStmt':
                flat.append(('case', self.render(s_['inner'][0], Path()), s_)); fl(s_['inner'][-1])
            elif s_.get('kind') == 'DefaultStmt':
                flat.append(('default', None, s_)); fl(s_['inner'][-1])
            else: flat.append(('stmt', s_, s_))
        for s_ in items: fl(s_)
        # labels inside the switch body
        labels = dict(labels)
        for i, (t, s_, _) in enumerate(flat):
            m = s_ if t == 'stmt' else None
            while m is not None and m.get('kind') == 'LabelStmt':
                labels[m['name']] = (lambda i_: (lambda q: self.run([x[1] for x in flat[i_:] if x[0] == 'stmt'], q, nxt, labels, nxt, cont)))(i)
                m = m['inner'][0]
        out = []
        heads = [(i, t, c) for i, (t, c, _) in enumerate(flat) if t != 'stmt']
        # group consecutive labels (case A: case B: stmt) into one arm
        arms = []
        i = 0
        while i < len(heads):
            j = i
            while j + 1 < len(heads) and heads[j + 1][0] == heads[j][0] + 1: j += 1
            arms.append(heads[i:j + 1]); i = j + 1
        has_default = any(t == 'default' for _, t, _ in heads)
        for arm in arms:
            names = [c if t == 'case' else '<default>' for _, t, c in arm]
            q = q0.copy(); q.events.append(('cond', f'{v} in [{", ".join(names)}]', True, flat[arm[0][0]][2]))
            seq = [x[1] for x in flat[arm[-1][0] + 1:] if x[0] == 'stmt']
            out += self.run(seq, q, nxt, labels, nxt, cont)
        if not has_default:
            q = q0.copy(); q.events.append(('cond', f'{v} in [<no case>]', True, st)); out += nxt(q)
        return out


def _is_int(s):
    try: int(s); return True
    except (ValueError, TypeError): return False

def _is_const(s):
    return _is_int(s) or s == 'NULL' or (s.startswith("'") and s.endswith("'")) or s.isupper() or (s[:1] == '-' and s[1:].replace('_', '').isupper()) or bool(s) and s.replace('_', '').isalnum() and s.upper() == s

def _is_atomish(s):
    return s.replace('_', '').replace('#', '').isalnum()

def _balanced(s):
    d = 0
    for c in s:
        if c == '(': d += 1
        elif c == ')':
            d -= 1
            if d < 0: return False
    return d == 0

def _mentions(atom, var):
    import re
    return re.search(r'(?<![\w>.])' + re.escape(var) + r'(?![\w#])', atom) is not None

def _boolean_valued(n):
    k = n.get('kind')
    return (k == 'BinaryOperator' and n.get('opcode') in ('&&', '||', '==', '!=', '<', '>', '<=', '>=')) or (k == 'UnaryOperator' and n.get('opcode') == '!')

def _fold(op, a, b):
    if op == '/':
        import re as _re
        m = _re.fullmatch(r'sizeof\((.+)\[(\d+)\]\)', a)
        if m and b == f'sizeof({m.group(1)})': return m.group(2)       # ARRAY_SIZE idiom
    if a == b and op in ('==', '<=', '>='): return '1'
    if a == b and op in ('!=', '<', '>'): return '0'
    if _is_int(a) and _is_int(b):
        x, y = int(a), int(b)
        try:
            return str(int({'==': x == y, '!=': x != y, '<': x < y, '<=': x <= y, '>': x > y, '>=': x >= y,
                            '+': x + y, '-': x - y, '*': x * y, '|': x | y, '&': x & y, '<<': x << y, '>>': x >> y}[op]))
        except KeyError:
            return None
    return None


def summarise(tu, fname, fold_enums=False, again=True, open_paths=False, inline=True, _depth=0):
    e = Engine(tu, fname, fold_enums, again)
    e.open_paths = open_paths
    paths = e.paths()
    if inline and _depth < 3: paths = inline_static_helpers(tu, fname, e, paths, fold_enums, _depth)
    return e, paths


# ---- static helpers of the same unit are spliced into their callers ----------------------------------------------
NO_INLINE = {'get', 'cont'}          # the decoder's byte readers are summarised by the decoder rules


def _static_helpers(tu, fname):
    out = {}
    for name, f in tu.functions.items():
        if name == fname or name in NO_INLINE: continue
        if f.get('storageClass') == 'static' and tu.own_functions().get(name) is f:
            # helpers with loops are not spliced (their iterations would multiply the caller's paths): the call event stays
            if any(m.get('kind') in ('ForStmt', 'WhileStmt', 'DoStmt') and not (m['kind'] == 'DoStmt' and _is_do_while_zero(m)) for m in walk(f)): continue
            out[name] = f
    return out


def _is_do_while_zero(n):
    c = n['inner'][1]
    while c.get('kind') in ('ImplicitCastExpr', 'ParenExpr'): c = c['inner'][0]
    return c.get('kind') == 'IntegerLiteral' and int(c.get('value', '1')) == 0


def _subst_tokens(text, mapping):
    """replace whole identifier tokens (not parts of a->b.c chains' field names, call symbols or loop variables)"""
    if not isinstance(text, str) or not mapping: return text
    def rep(m):
        return mapping.get(m.group(0), m.group(0))
    return re.sub(r"(?<![\w>.#@'])[A-Za-z_]\w*(?![\w#@(])", rep, text)


def _map_event(e, f):
    """apply f to every string of an event (targets, values, arguments), keeping the AST node at the end"""
    def g(x):
        if isinstance(x, str): return f(x)
        if isinstance(x, tuple): return tuple(g(y) for y in x)
        return x
    return tuple(g(x) if k > 0 and k < len(e) - 1 else x for k, x in enumerate(e))


def _const_cond(text, truth, enums):
    """truth value of a condition between constants (after a constant argument or return value was substituted), or None"""
    def val(tok):
        tok = tok.strip()
        neg = tok.startswith('-'); t = tok[1:] if neg else tok
        if t in enums: return -enums[t] if neg else enums[t]
        if re.fullmatch(r'\d+', t): return -int(t) if neg else int(t)
        if tok == 'NULL': return 0
        return None
    m = re.fullmatch(r'\((-?\w+) (==|!=|<|<=|>|>=) (-?\w+)\)', text)
    if m:
        a, b = val(m.group(1)), val(m.group(3))
        if a is None or b is None: return None
        return {'==': a == b, '!=': a != b, '<': a < b, '<=': a <= b, '>': a > b, '>=': a >= b}[m.group(2)]
    m = re.fullmatch(r'(-?\w+) in \[(.*)\]', text)
    if m and val(m.group(1)) is not None:
        items = [x.strip() for x in m.group(2).split(',')]
        if '<default>' in items: return None
        vals = [val(x) for x in items]
        if None in vals: return None
        return val(m.group(1)) in vals
    v = val(text)
    if v is not None: return v != 0
    return None


def inline_static_helpers(tu, fname, eng, paths, fold_enums, depth):
    helpers = _static_helpers(tu, fname)
    if not helpers: return paths
    cache = {}
    def callee_paths(name):
        if name not in cache:
            ce, cp = summarise(tu, name, fold_enums, True, False, True, depth + 1)
            f = tu.functions[name]
            params = [c['name'] for c in f.get('inner', []) if c.get('kind') == 'ParmVarDecl']
            local = {d['name'] for d in walk(f) if d.get('kind') == 'VarDecl'} | set(params)
            cache[name] = (cp, params, local)
        return cache[name]
    out = []; work = list(paths); budget = MAX_PATHS; offsets = {}
    while work:
        p = work.pop()
        k = next((i for i, e in enumerate(p.events) if e[0] == 'call' and e[1] in helpers and not (len(e) > 5)), None)
        if k is None: out.append(p); continue
        call = p.events[k]; sym = call[3]
        cp, params, local = callee_paths(call[1])
        if len(params) != len(call[2]): out.append(p); continue          # varargs / mismatch: leave the call event alone
        amap = {prm: (a if re.fullmatch(r"[\w#@'>.\-]+|\(.*\)|'.*'|\".*\"", a) else f'({a})') for prm, a in zip(params, call[2])}
        off = offsets.setdefault(sym, len(offsets) + 1)          # the same call site gets the same numbering on every caller path
        for q in cp:
            budget -= 1
            if budget < 0: raise AnalysisBroken(f'{fname}: more than {MAX_PATHS} paths after splicing in {call[1]}')
            def inner(text):
                # callee-local names are qualified, parameters become the argument expressions, call symbols are kept apart
                t = re.sub(r"((?:\(\*\w+\)|\w+))#(\d+)", lambda m: f'{m.group(1)}#{100 * (depth + 1) + 10 * off + int(m.group(2))}', text)
                return _subst_tokens(t, amap)
            qe = []
            feasible = True
            outvals = {}          # caller variable handed in as &X  ->  the value the helper stored through the pointer
            for e in q.events:
                if e[0] == 'return': continue
                e2 = _map_event(e, inner)
                if e[0] == 'set':
                    mo = re.fullmatch(r'\*\(?(\w+)\)?', e[1])
                    if mo and mo.group(1) in amap and re.fullmatch(r'\(?&\w+\)?', amap[mo.group(1)]):
                        X = amap[mo.group(1)].strip('()')[1:]
                        outvals[X] = e2[2]
                        qe.append(('set', X, e2[2]) + tuple(e2[3:])); continue
                if e2[0] == 'set' and e2[1] in local and e2[1] not in amap: e2 = (e2[0], f'{call[1]}.{e2[1]}') + tuple(e2[2:])
                if e2[0] == 'set' and e[1] in amap: e2 = (e2[0], f'{call[1]}.{e[1]}') + tuple(e2[2:])
                if e2[0] == 'cond':
                    t = _const_cond(e2[1], e2[2], tu.enums)
                    if t is not None:
                        if t != e2[2]: feasible = False; break
                        continue
                qe.append(e2)
            if not feasible: continue
            r = p.copy()
            rv = q.ret()
            if q.events and q.events[-1][0] == 'abort':
                r.events = p.events[:k] + qe; work.append(r); continue
            rvs = inner(str(rv[1])) if rv is not None and rv[1] is not None else 'void'
            tail = []
            def after(x):
                for X, v in outvals.items(): x = x.replace(f'{X}@{sym}', v)
                return re.sub(re.escape(sym) + r"(?![\w#'])", lambda m: rvs, x)
            for e in p.events[k + 1:]:
                e2 = _map_event(e, after)
                if e2[0] == 'cond':
                    t = _const_cond(e2[1], e2[2], tu.enums)
                    if t is not None:
                        if t != e2[2]: feasible = False; break
                        continue
                tail.append(e2)
            if not feasible: continue
            r.events = p.events[:k] + qe + tail
            work.append(r)
    uniq = {}
    for p in out: uniq.setdefault(tuple(p.text()), p)
    return list(uniq.values())
