"""Engine B: scanner-automaton extraction and joint (product) exploration.

A scanner function (single left-to-right loop over a byte cursor, small integer state, input bytes touched
only through comparisons with constants) is interpreted *abstractly from its own AST*: integer locals hold
concrete values, pointers are cursor-relative, input symbols are representatives of byte classes that are
provably indistinguishable to every comparison in the function and in the specification.  One evaluation of
the loop (condition, body, increment) is a transition; the reachable configurations are explored breadth
first *jointly* with other machines reading the same input (a specification DFA, another extracted scanner,
a monitor), forking only when a machine asks for a symbol (or an end test) that is not fixed yet.  Because
the space is finite the exploration is exhaustive, so a verdict covers strings of every length.

Nothing is executed or handed to a solver; the witness strings are report artefacts."""
import collections, re, os, time
from astutil import strip, walk, where, line_of, callee_name
from report import AnalysisBroken

END = 'END'        # end of input (the position `end` points at)
START = 'START'    # marker: no symbol before the cursor
GONE = 'GONE'      # a look-behind symbol that no machine can read any more (canonicalised away)
NA = 0x1000        # a well-formed multi-byte (non-ASCII) UTF-8 character: symbol NA + (class of the code point's low byte)
BAD = 0x2000       # an ill-formed UTF-8 sequence

def is_na(b):
    return isinstance(b, int) and 0x1000 <= b < 0x1100


class NeedMore(Exception):
    pass

class Refine(Exception):
    """the outcome of an operation differs between members of a symbol set: split window position `index`"""
    def __init__(s, index, groups): s.index = index; s.groups = groups

class Unsupported(Exception):
    pass

class OutOfRange(Unsupported):
    """the scanner reads a byte before the first byte of its range or beyond the terminator"""

class Runaway(OutOfRange):
    """an integer local grows without bound while scanning (the evaluator computes with unbounded integers, the C
    code does not): signed overflow is reachable by a long enough input"""

RUNAWAY_LIMIT = 65535

class Stop(Exception):
    """raised by a callback to end an exploration early (enough violations were found)"""

class Ret(Exception):
    def __init__(s, v, node): s.v = v; s.node = node
class Brk(Exception): pass
class Cont(Exception): pass
class Goto(Exception):
    def __init__(s, label): s.label = label


class Byte(int):
    """representative of a byte class: only comparisons with constants are meaningful"""

class BSet:
    """an input byte known only as a set of class representatives (window position `index`)"""
    __slots__ = ('index', 'members')
    def __init__(s, index, members): s.index = index; s.members = members
    def __repr__(s): return f'BSet@{s.index}{sorted(s.members)}'

class Ptr:
    __slots__ = ('base', 'off')
    def __init__(s, base, off): s.base = base; s.off = off
    def __repr__(s): return f'Ptr({s.base},{s.off})'

class CStr:
    """a constant string (literal, or a const char array initialised from one): only searched, never written"""
    __slots__ = ('data',)
    def __init__(s, data): s.data = list(data)
    def __repr__(s): return f'CStr({bytes(s.data)!r})'


class PDiff:
    """the number of bytes from cur + j to end + e (a pointer difference end - cursor); only compared with constants"""
    __slots__ = ('e', 'j')
    def __init__(s, e, j): s.e = e; s.j = j
    def __repr__(s): return f'PDiff(end{s.e:+d} - cur{s.j:+d})'


class LenVal:
    """(end + e) - start : the length of the scanned range, cached in a local (for (i = 0; i < len; i++) ...)"""
    __slots__ = ('e',)
    def __init__(s, e): s.e = e
    def __repr__(s): return f'LenVal(end{s.e:+d} - start)'
    def __add__(s, k): return LenVal(s.e + int(k))
    def __sub__(s, k): return LenVal(s.e - int(k))
    def __eq__(s, o): return isinstance(o, LenVal) and o.e == s.e
    def __hash__(s): return hash(('LenVal', s.e))


class Idx(tuple):
    """byte index produced by the decoder: (is_zero, symbol_at_that_index, is_current_position)"""


CTYPE = {'_IScntrl': lambda b: b < 0x20 or b == 0x7f,
         '_ISdigit': lambda b: 0x30 <= b <= 0x39,
         '_ISalnum': lambda b: (0x30 <= b <= 0x39) or (0x41 <= b <= 0x5a) or (0x61 <= b <= 0x7a),
         '_ISalpha': lambda b: (0x41 <= b <= 0x5a) or (0x61 <= b <= 0x7a),
         '_ISupper': lambda b: 0x41 <= b <= 0x5a, '_ISlower': lambda b: 0x61 <= b <= 0x7a,
         '_ISspace': lambda b: b in (0x20, 0x09, 0x0a, 0x0b, 0x0c, 0x0d),
         '_ISprint': lambda b: 0x20 <= b <= 0x7e, '_ISgraph': lambda b: 0x21 <= b <= 0x7e,
         '_ISpunct': lambda b: 0x21 <= b <= 0x7e and not ((0x30 <= b <= 0x39) or (0x41 <= b <= 0x5a) or (0x61 <= b <= 0x7a)),
         '_ISxdigit': lambda b: (0x30 <= b <= 0x39) or (0x41 <= b <= 0x46) or (0x61 <= b <= 0x66),
         '_ISblank': lambda b: b in (0x20, 0x09)}


# ------------------------------------------------------------------------------------------------
# alphabet: atoms of the Boolean algebra generated by every byte predicate of code and specification
def with_helpers(fn_nodes):
    """the functions plus, transitively, the helpers of the same translation unit they call (their constants cut the
    alphabet too, since helper calls are evaluated in line)"""
    out = []; seen = set()
    work = list(fn_nodes)
    while work:
        f = work.pop(0)
        if id(f) in seen: continue
        seen.add(id(f)); out.append(f)
        funcs = f.get('_tufuncs') or {}
        for m in walk(f):
            if m.get('kind') == 'CallExpr':
                nm = callee_name(m)
                if nm in funcs and id(funcs[nm]) not in seen and funcs[nm].get('name') not in ('utf8_decode_next', 'utf8_decode_init', 'utf8_decode_at_byte', 'is_ipv4', 'is_ipv6'): work.append(funcs[nm])
    return out


def function_constants(fn_nodes):
    """every integer/character literal in 0..255 and every ctype mask named in the functions"""
    consts = set(); masks = set()
    fn_nodes = with_helpers(fn_nodes)
    for fn in fn_nodes:
        for n in walk(fn):
            k = n.get('kind')
            if k in ('IntegerLiteral', 'CharacterLiteral'):
                try: v = int(n['value'])
                except (KeyError, ValueError): continue
                if 0 <= v <= 255: consts.add(v)
            elif k == 'DeclRefExpr' and n['referencedDecl'].get('name', '').startswith('_IS'):
                masks.add(n['referencedDecl']['name'])
            elif k == 'StringLiteral':
                for ch in n.get('value', '')[1:-1]:
                    if ord(ch) < 256: consts.add(ord(ch))
    return consts, masks


def c_string_bytes(spelling):
    """bytes of a C string literal as clang prints it ("..." with escapes)"""
    t = spelling
    if t.startswith('"') and t.endswith('"'): t = t[1:-1]
    out = []; i = 0
    simple = {'n': 10, 't': 9, 'r': 13, '0': 0, '\\': 92, '"': 34, "'": 39, 'a': 7, 'b': 8, 'f': 12, 'v': 11, '?': 63}
    while i < len(t):
        ch = t[i]
        if ch != '\\': out += list(ch.encode('utf-8')); i += 1; continue
        nx = t[i + 1] if i + 1 < len(t) else ''
        if nx == 'x':
            j = i + 2
            while j < len(t) and t[j] in '0123456789abcdefABCDEF': j += 1
            out.append(int(t[i + 2:j], 16) & 0xff); i = j
        elif nx in '01234567':
            j = i + 1
            while j < len(t) and j < i + 4 and t[j] in '01234567': j += 1
            out.append(int(t[i + 1:j], 8) & 0xff); i = j
        elif nx in simple: out.append(simple[nx]); i += 2
        else: raise Unsupported(f'escape \\{nx} in a string literal')
    return out


DER_OPS = {'&': lambda a, b: a & b, '|': lambda a, b: a | b, '^': lambda a, b: a ^ b, '+': lambda a, b: a + b, '-': lambda a, b: a - b,
           '>>': lambda a, b: a >> b if b >= 0 else 0, '<<': lambda a, b: a << b if 0 <= b < 32 else 0}


def derived_ops(fn_nodes):
    """(op, literal, literal_on_the_right) for every arithmetic/bitwise operation that has a literal operand: the other
    operand may be an input byte, and the result may be compared with constants (e.g. (c & 0x5f) >= 'A')"""
    out = set()
    fn_nodes = with_helpers(fn_nodes)
    def lit(n):
        n = strip(n)
        if n.get('kind') in ('IntegerLiteral', 'CharacterLiteral'):
            try: return int(n['value'])
            except (KeyError, ValueError): return None
        if n.get('kind') == 'UnaryOperator' and n.get('opcode') in ('~', '-'):
            v = lit(n['inner'][0])
            if v is not None: return ~v if n['opcode'] == '~' else -v
        return None
    def bytey(n, bvars):
        n = strip(n)
        k = n.get('kind')
        if k == 'DeclRefExpr': return n['referencedDecl'].get('name') in bvars
        if k == 'UnaryOperator' and n.get('opcode') == '*': return True
        if k == 'ArraySubscriptExpr': return True
        if k == 'CallExpr': return callee_name(n) in ('utf8_decode_next',)
        return False
    for fn in fn_nodes:
        # variables that hold an input byte: assigned from a dereference / subscript / the decoder
        bvars = set()
        for n in walk(fn):
            if n.get('kind') == 'BinaryOperator' and n.get('opcode') == '=' and strip(n['inner'][0]).get('kind') == 'DeclRefExpr' and bytey(n['inner'][1], ()):
                bvars.add(strip(n['inner'][0])['referencedDecl']['name'])
        for n in walk(fn):
            if n.get('kind') in ('BinaryOperator', 'CompoundAssignOperator') and n.get('opcode', '').rstrip('=') in DER_OPS and n.get('opcode') not in ('==', '>=', '<=', '!='):
                op = n['opcode'] if n['kind'] == 'BinaryOperator' else n['opcode'][:-1]
                l, r = lit(n['inner'][0]), lit(n['inner'][1])
                if r is not None and l is None and abs(r) < (1 << 31) and bytey(n['inner'][0], bvars): out.add((op, r, True))
                if l is not None and r is None and abs(l) < (1 << 31) and bytey(n['inner'][1], bvars): out.add((op, l, False))
    return sorted(out)


def byte_classes(consts, masks, extra_sets=(), lo=1, hi=255, derived=()):
    """partition lo..hi; returns (representatives, class_of dict byte->rep, classes list)"""
    for m in masks:
        if m not in CTYPE: raise AnalysisBroken(f'ctype mask {m} has no model')
    sig = {}
    cs = sorted(consts)
    for b in range(lo, hi + 1):
        s = []
        for c in cs: s.append(b == c); s.append(b < c)
        for m in sorted(masks): s.append(CTYPE[m](b) if b < 128 else False)
        for st in extra_sets: s.append(b in st)
        for op, L, right in derived:
            v = DER_OPS[op](b, L) if right else DER_OPS[op](L, b)
            for c in cs: s.append(v == c); s.append(v < c)
            s.append(v == 0); s.append(v < 0)
        sig.setdefault(tuple(s), []).append(b)
    classes = sorted(sig.values(), key=lambda c: c[0])
    reps = [c[0] for c in classes]
    class_of = {b: c[0] for c in classes for b in c}
    return reps, class_of, classes


# ------------------------------------------------------------------------------------------------
class View:
    """what one machine may ask about the shared input: symbols relative to its cursor.
    Window entries: START | END | int (one class representative) | frozenset of representatives."""
    def __init__(self, window, base, term, origin=None):
        self.window = window; self.base = base; self.term = term; self.origin = origin
    def index(self, k):
        return self.base + k
    def sym(self, k):
        i = self.base + k
        if self.origin is not None:
            if i == self.origin - 1: return START
            if i < self.origin - 1: raise Unsupported('nested scan reads before its own start')
        if i < 0: raise Unsupported('look-behind beyond the retained window')
        if i >= len(self.window):
            if self.window and self.window[-1] == END: raise OutOfRange(f'read beyond the terminator (cursor{k:+d})')
            raise NeedMore()
        return self.window[i]
    def dist_end(self, need):
        """distance from cursor to END if END lies within need+1 symbols, else None (meaning: farther)"""
        for j in range(max(self.base, 0), len(self.window)):
            if self.window[j] == END: return j - self.base
        if len(self.window) - self.base > need: return None
        raise NeedMore()
    def shifted(self, k, nested=False):
        return View(self.window, self.base + k, self.term, origin=(self.base + k) if nested else self.origin)


def members_of(e):
    if isinstance(e, frozenset): return e
    return frozenset([e])


class Interp:
    """C-subset evaluator over the JSON AST for scanner functions"""
    def __init__(self, tu, fname, term=0, counters=None, decoder=False):
        self.tu = tu; self.fname = fname; self.enums = tu.enums; self.term = term
        self.fn = tu.fn(fname); self.decoder = decoder
        body = tu.body(fname)['inner']
        self.labels = {}
        for n in walk(self.fn):
            if n.get('kind') == 'LabelStmt': self.labels[n['declId']] = n['name']
        self.pre = []; self.loop = None; self.post = []
        for st in body:
            if st['kind'] in ('ForStmt', 'WhileStmt') and self.loop is None: self.loop = st
            elif self.loop is None: self.pre.append(st)
            else:
                if st['kind'] in ('ForStmt', 'WhileStmt', 'DoStmt'): raise AnalysisBroken(f'{fname}: second top-level loop at {where(st)}')
                self.post.append(st)
        if self.loop is None: raise AnalysisBroken(f'{fname}: no scanning loop found')
        if self.loop['kind'] == 'ForStmt':
            self.l_init, _cv, self.l_cond, self.l_inc, self.l_body = self.loop['inner']
        else:
            self.l_init = None; self.l_inc = None; self.l_cond, self.l_body = self.loop['inner'][-2], self.loop['inner'][-1]
        self.params = tu.params(fname)
        if len(self.params) != 2: raise AnalysisBroken(f'{fname}: expected (start, end) parameters, found {self.params}')
        self.p_start, self.p_end = self.params
        self.dead_vars = self._dead_vars()
        self.cond_assigned = {strip(m['inner'][0])['referencedDecl']['name'] for m in walk(self.l_cond or {}) if m.get('kind') == 'BinaryOperator' and m.get('opcode') == '=' and strip(m['inner'][0]).get('kind') == 'DeclRefExpr'} if self.l_cond else set()
        self.sat = self._saturating(counters or {})
        # per-step scratch
        self.env = None; self.view = None; self.consumed = 0
        self.frame = 0          # > 0 while a helper of the same unit is evaluated in line

    # ---- static pre-passes -------------------------------------------------------------------
    def _dead_vars(self):
        """locals that are written/incremented but whose value is never read"""
        reads = set(); locals_ = set()
        def visit(n, parent, role):
            k = n.get('kind')
            if k == 'VarDecl': locals_.add(n['name'])
            if k == 'DeclRefExpr' and n['referencedDecl'].get('kind') == 'VarDecl':
                if role != 'write-only': reads.add(n['referencedDecl']['name'])
                return
            kids = n.get('inner', []) or []
            for i, c in enumerate(kids):
                r = None
                if k == 'BinaryOperator' and n.get('opcode') == '=' and i == 0 and strip(c).get('kind') == 'DeclRefExpr': r = 'write-only'
                if k == 'UnaryOperator' and n.get('opcode') in ('++', '--') and parent in ('CompoundStmt', 'ForStmt', 'IfStmt', 'CaseStmt', 'DefaultStmt', 'LabelStmt') and strip(c).get('kind') == 'DeclRefExpr': r = 'write-only'
                if k in ('ParenExpr', 'ImplicitCastExpr') and role == 'write-only': r = 'write-only'
                visit(c, k if k not in ('ParenExpr', 'ImplicitCastExpr') else parent, r)
        visit(self.fn, None, None)
        return {v for v in locals_ if v not in reads}

    def _saturating(self, declared):
        """counter -> cap.  A counter may saturate at cap if it is only incremented, assigned constants and
        compared with constants < cap; the usage pattern is verified here, the cap is max constant + 1."""
        out = {}
        # every integer local is a candidate (the names the caller expects are only a hint: a rename must not matter)
        cands = []
        for d in walk(self.fn):
            if d.get('kind') == 'VarDecl' and re.fullmatch(r'(?:const )?(?:unsigned |signed )?(?:int|long|short|size_t|ssize_t|unsigned|long long|unsigned long|ptrdiff_t|bool|_Bool)', d.get('type', {}).get('qualType', '')) and d['name'] not in cands:
                cands.append(d['name'])
        for var in cands:
            consts = []; ok = True
            def visit(n, parent):
                nonlocal ok
                k = n.get('kind')
                if k == 'DeclRefExpr' and n['referencedDecl'].get('name') == var and n['referencedDecl'].get('kind') == 'VarDecl':
                    pk = parent.get('kind') if parent else None
                    p = parent
                    if pk == 'ImplicitCastExpr': return 'value'
                    return 'ref'
                res = [visit(c, n) for c in n.get('inner', []) or []]
                if 'incr' in res:
                    # the value of ++x / x++ itself: used in a comparison it is one more use of the counter; as a statement
                    # its value is dropped
                    if k in ('ImplicitCastExpr', 'ParenExpr'): return 'incr'
                    if k == 'BinaryOperator' and n.get('opcode') in ('==', '!=', '<', '<=', '>', '>='):
                        other = n['inner'][1] if res[0] == 'incr' else n['inner'][0]
                        try: consts.append(int(self._const(other)))
                        except Exception: ok = False
                        return None
                    if k in ('CompoundStmt', 'CaseStmt', 'DefaultStmt', 'LabelStmt', 'DoStmt'): return None
                    if k in ('IfStmt', 'WhileStmt', 'ForStmt'): consts.append(0); return None
                    if k == 'BinaryOperator' and n.get('opcode') in ('&&', '||', ','): consts.append(0); return None
                    ok = False; return None
                if 'value' in res or 'ref' in res:
                    if k == 'ImplicitCastExpr': return 'value' if 'ref' in res or 'value' in res else None
                    if k == 'ParenExpr': return 'value' if 'value' in res else 'ref'
                    if k == 'UnaryOperator' and n.get('opcode') in ('++',): return 'incr'
                    if k == 'UnaryOperator' and n.get('opcode') == '!': consts.append(0); return None
                    if k == 'BinaryOperator' and n.get('opcode') == '=' and res[0] == 'ref':
                        rhs = strip(n['inner'][1])
                        if rhs.get('kind') != 'IntegerLiteral': ok = False
                        return None
                    if k == 'BinaryOperator' and n.get('opcode') in ('==', '!=', '<', '<=', '>', '>='):
                        other = n['inner'][1] if res[0] else n['inner'][0]
                        try: consts.append(int(self._const(other)))
                        except Exception: ok = False
                        return None
                    if k in ('IfStmt', 'WhileStmt', 'ForStmt') : consts.append(0); return None    # truthiness test
                    if k == 'BinaryOperator' and n.get('opcode') in ('&&', '||'): consts.append(0); return None
                    if k == 'VarDecl': return None
                    ok = False
                return None
            visit(self.fn, None)
            if not ok: continue                  # not a plain counter: it is tracked exactly (and stops the exploration if it runs away)
            out[var] = max(consts + [0]) + 1
        return out

    def _const(self, n):
        n = strip(n)
        if n['kind'] == 'IntegerLiteral' or n['kind'] == 'CharacterLiteral': return int(n['value'])
        if n['kind'] == 'DeclRefExpr' and n['referencedDecl'].get('kind') == 'EnumConstantDecl': return self.enums[n['referencedDecl']['name']]
        if n['kind'] == 'UnaryOperator' and n['opcode'] == '-': return -self._const(n['inner'][0])
        if n['kind'] == 'BinaryOperator':
            a, b = self._const(n['inner'][0]), self._const(n['inner'][1])
            return {'+': a + b, '-': a - b, '*': a * b}[n['opcode']]
        raise ValueError

    # ---- byte access ---------------------------------------------------------------------------
    def byte_at(self, k):
        if k == -1:
            v = self.view.sym(-1)
            if v == START: raise OutOfRange('read before the first byte of the input')
            return self.symval(v, self.view.index(-1))
        if k < -1:
            v = self.view.sym(k)
            if v == START: raise OutOfRange('read before the first byte of the input')
            return self.symval(v, self.view.index(k))
        v = self.view.sym(k)
        if v == END: return Byte(self.term)
        if v == START: raise OutOfRange('read before the first byte of the input')
        return self.symval(v, self.view.index(k))

    def symval(self, v, index):
        if v == GONE: raise Unsupported('read of a look-behind symbol beyond what the machine declared it needs')
        if isinstance(v, frozenset):
            if len(v) == 1: return Byte(next(iter(v)))
            return BSet(index, v)
        return Byte(v)

    def decide(self, b, fn):
        """value of fn over a byte that may be a set: same for all members, or refine the window position"""
        if not isinstance(b, BSet): return fn(int(b))
        groups = {}
        for m in b.members: groups.setdefault(fn(m), set()).add(m)
        if len(groups) == 1: return next(iter(groups))
        raise Refine(b.index, [frozenset(g) for g in groups.values()])

    def at_start(self):
        return self.view.sym(-1) == START

    def cmp_ptr(self, op, a, b):
        rel = lambda x, y: {'==': x == y, '!=': x != y, '<': x < y, '<=': x <= y, '>': x > y, '>=': x >= y}[op]
        inv = {'==': '==', '!=': '!=', '<': '>', '<=': '>=', '>': '<', '>=': '<='}
        A, B = (a.base, a.off), (b.base, b.off)
        if A[0] == B[0]: return int(rel(A[1], B[1]))
        order = {'start': 0, 'cur': 1, 'end': 2}
        if order[A[0]] > order[B[0]]:
            op2 = inv[op]; return self.cmp_ptr(op2, b, a)
        if A[0] == 'cur' and B[0] == 'end':
            k = A[1] - B[1]                      # compare cur+k with end
            d = self.view.dist_end(max(k, 0))
            if d is None: return int(rel(0, 1))  # end is farther than k
            return int(rel(k, d))
        if A[0] == 'start' and B[0] == 'cur':
            k = B[1] - A[1]                      # compare start with cur+k   <=>  index+k vs 0
            if self.at_start(): return int(rel(0, k))
            if k >= 0: return int(rel(0, 1))     # index >= 1, so start < cur + k
            raise Unsupported('start compared with cur-k away from the start')
        if A[0] == 'start' and B[0] == 'end':
            if not self.at_start(): raise Unsupported('start vs end away from the start')
            return self.cmp_ptr(op, Ptr('cur', A[1]), b)
        raise Unsupported(f'pointer comparison {A} {B}')

    # ---- expressions ---------------------------------------------------------------------------
    def ev(self, n):
        k = n['kind']
        if k in ('ImplicitCastExpr', 'CStyleCastExpr') and n.get('castKind') == 'IntegralCast' and n.get('type', {}).get('qualType') in ('char', 'unsigned char', 'signed char'):
            v = self.ev(n['inner'][0])
            if isinstance(v, (Byte, BSet)):
                # narrowing a code point to a char keeps its low byte: for a non-ASCII character that is the class in its symbol
                low = self.decide(v, lambda m: (m - NA) if is_na(m) else m)
                if low == BAD: raise Unsupported('narrowing of an ill-formed character')
                return Byte(low)
            return v
        if k in ('ImplicitCastExpr', 'ParenExpr', 'CStyleCastExpr', 'ConstantExpr'):
            return self.ev(n['inner'][0])
        if k == 'IntegerLiteral' or k == 'CharacterLiteral': return int(n['value'])
        if k == 'StringLiteral': return CStr(c_string_bytes(n.get('value', '')))
        if k == 'UnaryExprOrTypeTraitExpr' and n.get('name') == 'sizeof':
            t = (n.get('argType') or {}).get('qualType') or (strip(n['inner'][0]).get('type', {}).get('qualType') if n.get('inner') else None) or ''
            m = re.fullmatch(r'(?:const )?(?:unsigned |signed )?char ?\[(\d+)\]', t)
            if m: return int(m.group(1))
            if t in ('char', 'unsigned char', 'signed char', 'const char'): return 1
            raise Unsupported(f'sizeof({t})')
        if k == 'DeclRefExpr':
            rd = n['referencedDecl']; name = rd['name']
            if rd['kind'] == 'EnumConstantDecl': return self.enums[name]
            if self.frame > 0:
                if name not in self.env: raise Unsupported(f'helper reads {name}, which is not one of its parameters or locals')
                return self.env[name]
            if name == self.p_start and rd['kind'] == 'ParmVarDecl': return Ptr('start', 0)
            if name == self.p_end and rd['kind'] == 'ParmVarDecl': return self.env.get('#end', Ptr('end', 0))
            if name not in self.env: raise Unsupported(f'read of unset variable {name}')
            return self.env[name]
        if k == 'UnaryOperator':
            op = n['opcode']; sub = n['inner'][0]
            if op in ('++', '--'):
                name = self.lv(sub)
                if self.frame == 0 and name in self.dead_vars: return 0          # value never read anywhere in the function
                v = self.env.get(name, Ptr('end', 0)) if name == '#end' else self.env[name]
                d = 1 if op == '++' else -1
                new = Ptr(v.base, v.off + d) if isinstance(v, Ptr) else (LenVal(v.e + d) if isinstance(v, LenVal) else v + d)
                self.store(name, new)
                return v if n.get('isPostfix') else self.env[name]
            if op == '&':
                return ('addr', self.lv(sub))
            v = self.ev(sub)
            if op == '!':
                if isinstance(v, Ptr): raise Unsupported('! on pointer')
                return int(not v)
            if op == '-': return -v
            if op == '~':
                if isinstance(v, (Byte, BSet)): raise Unsupported('~ on input byte')
                return ~v
            if op == '*':
                if isinstance(v, Ptr) and v.base == 'cur': return self.byte_at(v.off)
                if isinstance(v, Ptr) and v.base == 'end': return self.byte_at_end(v.off)
                raise Unsupported('dereference of ' + repr(v))
            raise Unsupported('unary ' + op)
        if k == 'ArraySubscriptExpr':
            base = self.ev(n['inner'][0]); idx = self.ev(n['inner'][1])
            if isinstance(idx, Ptr) and not isinstance(base, Ptr): base, idx = idx, base
            if isinstance(base, Ptr) and base.base == 'cur' and isinstance(idx, int) and not isinstance(idx, Byte):
                return self.byte_at(base.off + idx)
            if isinstance(base, Ptr) and base.base == 'end' and isinstance(idx, int): return self.byte_at_end(base.off + idx)
            if isinstance(base, Ptr) and base.base == 'start' and isinstance(idx, Ptr) and idx.base == 'cur' and getattr(self, 'index_cursor', False):
                return self.byte_at(base.off + idx.off)                       # start[i], start[i + 1]
            if isinstance(base, Ptr) and base.base == 'start' and base.off == 0:
                if isinstance(idx, Idx): return Byte(idx[1]) if not is_na(idx[1]) else Byte(0xC3)
                if isinstance(idx, int) and idx == 0: return self.first_byte()
            return self.subscript_hook(n, base, idx)
        if k == 'BinaryOperator':
            op = n['opcode']; L, R = n['inner']
            if op == '&&': return int(self.truth(self.ev(L)) and self.truth(self.ev(R)))
            if op == '||': return int(self.truth(self.ev(L)) or self.truth(self.ev(R)))
            if op == ',': self.ev(L); return self.ev(R)
            if op == '=':
                v = self.ev(R); self.store(self.lv(L), v); return v
            if op == '&':
                m = self.ctype(n)
                if m is not None: return m
            a = self.ev(L); b = self.ev(R)
            self._lit = (strip(L).get('kind') in ('IntegerLiteral', 'CharacterLiteral') or (strip(L).get('kind') == 'UnaryOperator' and strip(strip(L)['inner'][0]).get('kind') == 'IntegerLiteral'),
                         strip(R).get('kind') in ('IntegerLiteral', 'CharacterLiteral') or (strip(R).get('kind') == 'UnaryOperator' and strip(strip(R)['inner'][0]).get('kind') == 'IntegerLiteral'))
            a = self.operand_uwrap(L, a); b = self.operand_uwrap(R, b)
            try: r = self.binop(op, a, b)
            finally: self._lit = (False, False)
            return self.no_unsigned_wrap(n, op, r)
        if k == 'CompoundAssignOperator':
            name = self.lv(n['inner'][0]); v = self.ev(n['inner'][1]); op = n['opcode'][:-1]
            cur = self.env.get(name, Ptr('end', 0)) if name == '#end' else self.env[name]
            r = self.no_unsigned_wrap(n, op, self.binop(op, cur, v))
            self.store(name, r); return self.env[name]
        if k == 'ConditionalOperator':
            c = self.truth(self.ev(n['inner'][0]))
            return self.ev(n['inner'][1 if c else 2])
        if k == 'CallExpr': return self.call(n)
        raise Unsupported('expression kind ' + k)

    def truth(self, v):
        if isinstance(v, Ptr): raise Unsupported('pointer used as truth value')
        if isinstance(v, Idx): return not v[0]
        if isinstance(v, BSet): return self.decide(v, lambda m: bool(m))
        if isinstance(v, tuple): raise Unsupported('non-scalar used as truth value')
        return bool(v)

    def byte_at_end(self, k):
        raise Unsupported('read relative to end')

    def first_byte(self):
        raise Unsupported('start[0]')

    def subscript_hook(self, n, base, idx):
        raise Unsupported(f'subscript {base!r}[{idx!r}]')

    UNSIGNED_BITS = (('unsigned long', 64), ('size_t', 64), ('uintptr_t', 64), ('uint64_t', 64), ('unsigned int', 32), ('uint32_t', 32), ('unsigned', 32))

    def unsigned_bits(self, t):
        t = re.sub(r'^(?:const |volatile )+', '', t or '')
        for name, bits in self.UNSIGNED_BITS:
            if t == name or t.startswith(name + ' '): return bits
        return None

    def uwrap(self, t, v):
        """a negative mathematical integer in an unsigned type: C reduces it modulo 2^N (((unsigned)c | 0x20u) - 'a' < 26u).
        Values are concrete (class representatives), so the reduced value is the exact C value for that representative."""
        if isinstance(v, int) and not isinstance(v, bool) and v < 0:
            bits = self.unsigned_bits(t)
            if bits: return type(v)(v % (1 << bits)) if isinstance(v, Byte) else v % (1 << bits)
        return v

    def operand_uwrap(self, n, v):
        """operand converted to an unsigned type by a cast the evaluator otherwise looks through"""
        while n.get('kind') in ('ParenExpr', 'ImplicitCastExpr', 'CStyleCastExpr'):
            if n['kind'] != 'ParenExpr' and n.get('castKind') == 'IntegralCast': v = self.uwrap(n.get('type', {}).get('qualType', ''), v)
            n = n['inner'][-1]
        return v

    def no_unsigned_wrap(self, n, op, r):
        if op in ('+', '-', '*'): return self.uwrap((n.get('computeResultType') or n.get('type') or {}).get('qualType', ''), r)
        return r

    def binop(self, op, a, b):
        cmpops = ('==', '!=', '<', '<=', '>', '>=')
        if isinstance(a, Idx) or isinstance(b, Idx): return self.idx_op(op, a, b)
        if isinstance(a, LenVal) or isinstance(b, LenVal):
            L, o, swapped = (a, b, False) if isinstance(a, LenVal) else (b, a, True)
            if isinstance(o, LenVal) and op in cmpops: return int({'==': a.e == b.e, '!=': a.e != b.e, '<': a.e < b.e, '<=': a.e <= b.e, '>': a.e > b.e, '>=': a.e >= b.e}[op])
            if isinstance(o, int) and not isinstance(o, (Byte, bool)) and op in ('+', '-') and not (swapped and op == '-'): return LenVal(L.e + (o if op == '+' else -o))
            if op in cmpops:
                # len op X  <=>  end + e  op  start + X   (X a constant, or the index cursor = a position cur + k)
                if isinstance(o, Ptr) and o.base == 'cur': other = o
                elif isinstance(o, int) and not isinstance(o, (Byte, bool)): other = Ptr('start', int(o))
                else: raise Unsupported('length compared with ' + repr(o))
                return self.cmp_ptr(op, other, Ptr('end', L.e)) if swapped else self.cmp_ptr(op, Ptr('end', L.e), other)
            raise Unsupported('arithmetic on the range length: ' + op)
        if getattr(self, 'index_cursor', False):
            # the cursor is an integer index i (start[i]): it is carried as the position cur + k
            for x, y, sw in ((a, b, False), (b, a, True)):
                if isinstance(x, Ptr) and x.base == 'cur' and isinstance(y, int) and not isinstance(y, (Byte, bool)) and op in cmpops:
                    return self.cmp_ptr(op, Ptr('start', int(y)), x) if sw else self.cmp_ptr(op, x, Ptr('start', int(y)))
            if op == '+' and isinstance(a, Ptr) and isinstance(b, Ptr) and {a.base, b.base} == {'start', 'cur'}:
                return Ptr('cur', a.off + b.off)                               # start + i
        if isinstance(a, PDiff) or isinstance(b, PDiff):
            # (end + e) - (cur + j)  compared with a constant K:  the same question as  end + e  op  cur + j + K
            if isinstance(a, PDiff) and isinstance(b, int) and not isinstance(b, (Byte, PDiff)):
                if op in cmpops: return self.cmp_ptr(op, Ptr('end', a.e), Ptr('cur', a.j + int(b)))
                if op in ('+', '-'): return PDiff(a.e, a.j - int(b) if op == '+' else a.j + int(b))
            if isinstance(b, PDiff) and isinstance(a, int) and not isinstance(a, (Byte, PDiff)) and op in cmpops:
                return self.cmp_ptr(op, Ptr('cur', b.j + int(a)), Ptr('end', b.e))
            raise Unsupported('arithmetic on a remaining-length value: ' + op)
        if isinstance(a, Ptr) or isinstance(b, Ptr):
            if op in cmpops and isinstance(a, Ptr) and isinstance(b, Ptr): return self.cmp_ptr(op, a, b)
            if op in cmpops and (a == 0 or b == 0):      # pointer vs NULL: our pointers are never NULL
                return int({'==': False, '!=': True}[op])
            if op == '+' and isinstance(a, Ptr) and isinstance(b, int) and not isinstance(b, Byte): return Ptr(a.base, a.off + b)
            if op == '+' and isinstance(b, Ptr) and isinstance(a, int) and not isinstance(a, Byte): return Ptr(b.base, b.off + a)
            if op == '-' and isinstance(a, Ptr) and isinstance(b, int) and not isinstance(b, Byte): return Ptr(a.base, a.off - b)
            if op == '-' and isinstance(a, Ptr) and isinstance(b, Ptr): return self.ptr_diff(a, b)
            raise Unsupported('pointer arithmetic ' + op)
        isb = lambda x: isinstance(x, (Byte, BSet))
        if isb(a) or isb(b):
            if isb(a) and isb(b):
                if isinstance(a, Byte) and isinstance(b, Byte) and op in cmpops:
                    return int({'==': a == b, '!=': a != b, '<': a < b, '<=': a <= b, '>': a > b, '>=': a >= b}[op])
                raise Unsupported('operation between two input bytes')
            by, other, swapped = (a, b, False) if isb(a) else (b, a, True)
            if isinstance(other, (Ptr, Idx, tuple)): raise Unsupported('input byte mixed with a non-integer')
            c = int(other)
            if op in cmpops:
                f = {'==': lambda x, y: x == y, '!=': lambda x, y: x != y, '<': lambda x, y: x < y, '<=': lambda x, y: x <= y,
                     '>': lambda x, y: x > y, '>=': lambda x, y: x >= y}[op]
                return self.decide(by, (lambda m: int(f(c, m))) if swapped else (lambda m: int(f(m, c))))
            other_is_literal = self._lit[0] if swapped else self._lit[1]
            if op == '-' and not swapped and isinstance(by, Byte) and self.singleton(by): return int(by) - c     # exact: the class is one byte
            if op in DER_OPS and other_is_literal and not (is_na(min(by.members)) if isinstance(by, BSet) else is_na(int(by))):
                # byte (op) literal: the classes were cut so that every comparison of this value with a constant of the
                # function has the same outcome for all bytes of a class; the result is again comparison-only
                f = DER_OPS[op]
                return Byte(self.decide(by, (lambda m: f(c, m)) if swapped else (lambda m: f(m, c))))
            if op == '&':
                if c == ~0x7f: return self.decide(by, lambda m: m & c)        # isascii idiom
                raise Unsupported('mask on input byte')
            if op == '-' and not swapped:
                m = self.decide(by, lambda m: m)                                # refine to one class
                if not self.singleton(m): raise Unsupported('arithmetic on an input byte whose class is not a single byte')
                return m - c
            raise Unsupported('arithmetic on an input byte: ' + op)
        if op in cmpops: return int({'==': a == b, '!=': a != b, '<': a < b, '<=': a <= b, '>': a > b, '>=': a >= b}[op])
        try:
            return {'+': a + b, '-': a - b, '*': a * b, '&': a & b, '|': a | b}[op]
        except KeyError:
            raise Unsupported('operator ' + op)

    singletons = None
    _lit = (False, False)
    def singleton(self, b):
        return self.singletons is not None and int(b) in self.singletons

    def ptr_diff(self, a, b):
        if a.base == 'end' and b.base == 'cur': return PDiff(a.off, b.off)
        if a.base == 'end' and b.base == 'start': return LenVal(a.off - b.off)
        raise Unsupported('pointer difference')

    def idx_op(self, op, a, b):
        raise Unsupported('decoder index arithmetic')

    def ctype(self, n):
        """glibc idiom  (*__ctype_b_loc())[(int)(c)] & (unsigned short)_ISxxx"""
        has = False
        for m in walk(n['inner'][0]):
            if m.get('kind') == 'CallExpr' and callee_name(m) == '__ctype_b_loc': has = True
        if not has: return None
        sub = None
        for m in walk(n['inner'][0]):
            if m.get('kind') == 'ArraySubscriptExpr': sub = m; break
        c = self.ev(sub['inner'][1])
        mask = None
        for m in walk(n['inner'][1]):
            if m.get('kind') == 'DeclRefExpr': mask = m['referencedDecl']['name']
        if mask not in CTYPE: raise Unsupported(f'ctype mask {mask}')
        if not isinstance(c, (Byte, BSet)): raise Unsupported('ctype on a non-input value')
        def f(m):
            if m > 127 or m < 0: raise Unsupported('ctype predicate applied to a byte that was not established to be ASCII')
            return int(CTYPE[mask](m))
        return self.decide(c, f)

    def call(self, n):
        name = callee_name(n)
        if name in ('strchr', 'memchr'):
            # membership of a byte in a constant string: strchr("...", c) / memchr("...", c, k).  The int argument is
            # converted to char by the library, so a code point is judged by its low byte; the terminator belongs to the
            # string for strchr.  The result is used as a truth value (1 = found).
            a = n['inner'][1:]
            lit = self.ev(a[0])
            if not isinstance(lit, CStr): raise Unsupported(f'{name} on something other than a constant string')
            chars = list(lit.data) + [0]
            if name == 'memchr':
                k = self.ev(a[2])
                if not isinstance(k, int) or isinstance(k, (Byte,)) or k > len(chars): raise Unsupported('memchr length')
                chars = chars[:k]
            cs = frozenset(chars)
            c = self.ev(a[1])
            def f(m):
                if m == BAD: raise Unsupported('membership test on an ill-formed character')
                low = (m - NA) if is_na(m) else m
                return int((low & 0xff) in cs)
            if isinstance(c, (Byte, BSet)): return self.decide(c, f)
            if isinstance(c, int): return f(c)
            raise Unsupported(f'{name} on a non-byte value')
        return self.call_helper(n, name)

    def call_helper(self, n, name):
        """a function of the same translation unit (an extracted helper): evaluated in line with its own frame.  Its
        parameters receive the evaluated arguments (bytes, integers, cursor-relative pointers); it may read the input
        through them like the scanner itself; recursion and helpers with loops over the table etc. are outside the subset"""
        f = (self.fn.get('_tufuncs') or {}).get(name)
        if f is None or f is self.fn or self.frame >= 3: raise Unsupported('call of ' + str(name))
        params = [c['name'] for c in f.get('inner', []) if c.get('kind') == 'ParmVarDecl']
        args = [self.ev(a) for a in n['inner'][1:]]
        if len(params) != len(args): raise Unsupported(f'call of {name} with {len(args)} argument(s)')
        body = [c for c in f['inner'] if c.get('kind') == 'CompoundStmt'][0]
        saved_env, saved_labels = self.env, self.labels
        self.env = dict(zip(params, args)); self.frame += 1
        self.labels = {m['declId']: m['name'] for m in walk(f) if m.get('kind') == 'LabelStmt'}
        try:
            try: self.ex(body)
            except Ret as r: return r.v
            except (Brk, Cont, Goto): raise Unsupported(f'control leaves helper {name} other than by return')
            return None
        finally:
            self.env, self.labels = saved_env, saved_labels; self.frame -= 1

    def lv(self, n):
        n = strip(n) if n['kind'] == 'ParenExpr' else n
        while n['kind'] == 'ParenExpr': n = n['inner'][0]
        if n['kind'] == 'DeclRefExpr':
            name = n['referencedDecl']['name']
            if self.frame == 0 and name == self.p_end and n['referencedDecl']['kind'] == 'ParmVarDecl': return '#end'
            return name
        raise Unsupported('lvalue ' + n['kind'])

    def store(self, name, v):
        if self.frame > 0:
            if isinstance(v, int) and not isinstance(v, (Byte, bool)) and abs(v) > RUNAWAY_LIMIT: raise Runaway(f'integer variable {name} of a helper grows without bound')
            self.env[name] = v; return
        if name in self.dead_vars: return
        if name == '#end':
            raise Unsupported('assignment to the end parameter inside the scan')
        if name in self.sat and isinstance(v, int) and not isinstance(v, Byte) and not isinstance(v, bool) and v > self.sat[name]: v = self.sat[name]
        if isinstance(v, int) and not isinstance(v, (Byte, bool)) and abs(v) > RUNAWAY_LIMIT:
            raise Runaway(f'integer variable {name} reaches {v} and keeps growing with the input: no bound is enforced while scanning (signed overflow, i.e. undefined behaviour, for a long enough run)')
        self.env[name] = v

    # ---- statements ----------------------------------------------------------------------------
    def ex(self, n):
        k = n['kind']
        if k == 'CompoundStmt': return self.ex_seq(n.get('inner', []))
        if k == 'LabelStmt': return self.ex(n['inner'][0])
        if k == 'NullStmt': return
        if k == 'DeclStmt':
            for v in n['inner']:
                if v.get('kind') != 'VarDecl': continue
                init = [c for c in v.get('inner', []) if 'Comment' not in c['kind']]
                self.env[v['name']] = self.ev(init[0]) if init else None
            return
        if k == 'IfStmt':
            c = n['inner']
            if self.truth(self.ev(c[0])): self.ex(c[1])
            elif len(c) > 2: self.ex(c[2])
            return
        if k == 'ReturnStmt': raise Ret(self.ev(n['inner'][0]), n)
        if k == 'BreakStmt': raise Brk()
        if k == 'ContinueStmt': raise Cont()
        if k == 'GotoStmt': raise Goto(self.labels[n['targetLabelDeclId']])
        if k == 'SwitchStmt': return self.ex_switch(n)
        if k in ('ForStmt', 'WhileStmt', 'DoStmt'): return self.ex_inner_loop(n)
        self.ev(n)

    def ex_inner_loop(self, n):
        """a loop nested in the scanning loop (e.g. a hand-written span over the next few bytes): executed inside the
        current step; it reads the window lazily like everything else.  More than 64 iterations is outside the subset."""
        k = n['kind']
        if k == 'ForStmt': init, _cv, cond, inc, body = n['inner']
        elif k == 'WhileStmt': init = inc = None; cond, body = n['inner'][-2], n['inner'][-1]
        else: init = inc = None; body, cond = n['inner']
        if init is not None and init.get('kind'):
            if init['kind'] == 'DeclStmt': self.ex(init)
            else: self.ev(init)
        first = (k == 'DoStmt')
        for _ in range(65):
            if not first and cond is not None and cond.get('kind') and not self.truth(self.ev(cond)): return
            first = False
            try: self.ex(body)
            except Brk: return
            except Cont: pass
            if inc is not None and inc.get('kind'): self.ev(inc)
        raise Unsupported('nested loop runs more than 64 times at ' + where(n))

    def ex_seq(self, items):
        i = 0
        while i < len(items):
            try:
                self.ex(items[i]); i += 1
            except Goto as g:
                for j, it in enumerate(items):
                    m = it
                    found = False
                    while m['kind'] == 'LabelStmt':
                        if m['name'] == g.label: found = True
                        m = m['inner'][0]
                    if found:
                        if j <= i and it is not items[i]: raise Unsupported('backward goto')
                        i = j; break
                else: raise

    def ex_switch(self, n):
        v = self.ev(n['inner'][-2] if len(n['inner']) > 2 else n['inner'][0])
        if isinstance(v, (Ptr, Idx, tuple)): raise Unsupported('switch on a non-integer')
        scrut_set = v if isinstance(v, BSet) else None
        body = n['inner'][-1]
        items = body.get('inner', []) if body['kind'] == 'CompoundStmt' else [body]
        flat = []
        def fl(st):
            if st['kind'] == 'CaseStmt':
                flat.append(('case', self._const(st['inner'][0]))); fl(st['inner'][-1])
            elif st['kind'] == 'DefaultStmt':
                flat.append(('default', None)); fl(st['inner'][-1])
            else: flat.append(('stmt', st))
        for st in items: fl(st)
        def arm(val):
            for i, (t, c) in enumerate(flat):
                if t == 'case' and c == val: return i
            for i, (t, c) in enumerate(flat):
                if t == 'default': return i
            return None
        start = self.decide(scrut_set, arm) if scrut_set is not None else arm(v)
        if start is None: return
        try:
            self.ex_seq([st for t, st in flat[start:] if t == 'stmt'])
        except Brk:
            pass


# ------------------------------------------------------------------------------------------------
class ScannerMachine(Interp):
    """an extracted scanner as a machine for the joint explorer"""
    kind = 'impl'
    def __init__(self, tu, fname, term=0, counters=None, name=None, prologue='run'):
        super().__init__(tu, fname, term, counters)
        self.name = name or fname; self.prologue = prologue
        self._find_cursor()

    def _find_cursor(self):
        """the loop's cursor, by role: a pointer local that is given `start`, or - failing that - an integer local that
        subscripts `start` and is stepped by the loop (an index cursor).  Names do not matter."""
        if type(self).cursor != 'cp': return                    # the subclass reads its input differently (decoder)
        ptrs = []; idxs = []
        for n in walk(self.fn):
            k = n.get('kind')
            if k == 'VarDecl' and '*' in n.get('type', {}).get('qualType', ''):
                ini = [c for c in n.get('inner', []) if 'Comment' not in c.get('kind', '')]
                if ini and strip(ini[0]).get('kind') == 'DeclRefExpr' and strip(ini[0])['referencedDecl'].get('name') == self.p_start: ptrs.append(n['name'])
            if k == 'BinaryOperator' and n.get('opcode') == '=' and strip(n['inner'][0]).get('kind') == 'DeclRefExpr' and strip(n['inner'][1]).get('kind') == 'DeclRefExpr' \
               and strip(n['inner'][1])['referencedDecl'].get('name') == self.p_start and strip(n['inner'][0])['referencedDecl'].get('kind') == 'VarDecl':
                ptrs.append(strip(n['inner'][0])['referencedDecl']['name'])
            if k == 'ArraySubscriptExpr':
                b = strip(n['inner'][0]); i = strip(n['inner'][1])
                if b.get('kind') == 'DeclRefExpr' and b['referencedDecl'].get('name') == self.p_start and b['referencedDecl'].get('kind') == 'ParmVarDecl':
                    for m in walk(i):
                        if m.get('kind') == 'DeclRefExpr' and m['referencedDecl'].get('kind') == 'VarDecl' and '*' not in m['referencedDecl'].get('type', {}).get('qualType', '*'): idxs.append(m['referencedDecl']['name'])
        stepped = set()
        for n in walk(self.loop):
            if n.get('kind') == 'UnaryOperator' and n.get('opcode') in ('++',) and strip(n['inner'][0]).get('kind') == 'DeclRefExpr': stepped.add(strip(n['inner'][0])['referencedDecl']['name'])
            if n.get('kind') == 'CompoundAssignOperator' and n.get('opcode') == '+=' and strip(n['inner'][0]).get('kind') == 'DeclRefExpr': stepped.add(strip(n['inner'][0])['referencedDecl']['name'])
        p = [x for x in dict.fromkeys(ptrs) if x in stepped]
        if p: self.cursor = p[0]; return
        ix = [x for x in dict.fromkeys(idxs) if x in stepped and x not in self.sat]
        if ix and not ptrs: self.cursor = ix[0]; self.index_cursor = True

    index_cursor = False
    _adv = 0

    def key(self):
        out = []
        rebase = getattr(self, '_adv', 0)
        if not isinstance(rebase, int): rebase = 0
        for k, v in sorted(self.env.items()):
            if k in self.dead_vars or v is None: continue
            if isinstance(v, (Byte, BSet)):
                if k in self.cond_assigned: continue              # re-read by the loop condition in every iteration
                if isinstance(v, BSet): raise Refine(v.index, [frozenset([m]) for m in v.members])   # remembered across iterations: fix it
                out.append((k, ('byte', int(v)))); continue
            if isinstance(v, Idx): out.append((k, ('idx', v[0], v[1]))); continue
            if isinstance(v, Ptr):
                if k == self.cursor: continue
                # a saved position is relative to the cursor of the step that made it: re-base it on the new cursor
                out.append((k, ('ptr', v.base, v.off - (rebase if v.base == 'cur' else 0)))); continue
            if isinstance(v, tuple): out.append((k, v)); continue
            if isinstance(v, PDiff): out.append((k, ('pdiff', v.e, v.j - rebase))); continue
            if isinstance(v, LenVal): out.append((k, ('lenval', v.e))); continue
            out.append((k, v))
        return tuple(out)

    cursor = 'cp'

    def restore(self, key):
        self.env = {}
        for k, v in key:
            if isinstance(v, tuple) and v and v[0] == 'byte': self.env[k] = Byte(v[1])
            elif isinstance(v, tuple) and v and v[0] == 'idx': self.env[k] = Idx((v[1], v[2], False))
            elif isinstance(v, tuple) and v and v[0] == 'ptr': self.env[k] = Ptr(v[1], v[2])
            elif isinstance(v, tuple) and v and v[0] == 'pdiff': self.env[k] = PDiff(v[1], v[2])
            elif isinstance(v, tuple) and v and v[0] == 'lenval': self.env[k] = LenVal(v[1])
            else: self.env[k] = v
        self.env[self.cursor] = Ptr('cur', 0)

    def initial(self, view):
        """run the prologue and the loop initialiser; -> ('run', key, 0) or ('ret', rc, node)"""
        self.env = {}; self.view = view; self.consumed = 0
        try:
            self.ex_seq(self.pre if self.prologue == 'run' else [st for st in self.pre if st['kind'] == 'DeclStmt'])
            if self.l_init is not None and self.l_init.get('kind'):
                if self.l_init['kind'] == 'DeclStmt': self.ex(self.l_init)
                else: self.ev(self.l_init)
        except Ret as r:
            return ('ret', self._rc(r.v), r.node)
        cp = self.env.get(self.cursor)
        if isinstance(cp, Ptr) and cp.base == 'start' and cp.off == 0: self.env[self.cursor] = Ptr('cur', 0)
        elif self.index_cursor and isinstance(cp, int) and not isinstance(cp, (Byte, bool)) and cp == 0: self.env[self.cursor] = Ptr('cur', 0)
        elif self.cursor in self.env: raise Unsupported(f'cursor initialised to {cp!r}')
        return ('run', self.key(), 0)

    def _rc(self, v):
        if isinstance(v, (Ptr, Byte, BSet)): raise Unsupported('returns a non-code value')
        return v

    def step(self, key, view):
        """one loop evaluation from state `key`; -> ('run', key', advance) | ('ret', rc, node)"""
        self.restore(key); self.view = view; self.consumed = 0
        try:
            if self.l_cond.get('kind') and not self.truth(self.ev(self.l_cond)):
                self.ex_seq(self.post)
                raise Unsupported('function falls off its end')
            try:
                self.ex(self.l_body)
            except Cont: pass
            except Brk:
                self.ex_seq(self.post); raise Unsupported('function falls off its end')
            if self.l_inc is not None and self.l_inc.get('kind'): self.ev(self.l_inc)
        except Ret as r:
            return ('ret', self._rc(r.v), r.node)
        adv = self.advance()
        if adv != 'overrun' and adv < 1 and not self.exhausted(): raise Unsupported('loop iteration without progress')
        if adv == 'overrun':
            # the cursor stepped over `end` (without dereferencing): the loop condition decides what happens next
            self.overruns += 1
            try:
                if not self.l_cond.get('kind') or self.truth(self.ev(self.l_cond)): raise Unsupported('scan continues beyond end')
                self.ex_seq(self.post)
            except Ret as r:
                return ('ret', self._rc(r.v), r.node)
            raise Unsupported('function falls off its end')
        self._adv = adv
        try: return ('run', self.key(), adv)
        finally: self._adv = 0

    overruns = 0

    def exhausted(self):
        """may an iteration end without consuming input?  (only a decoder-driven loop whose step read END / ERROR)"""
        return False

    def advance(self):
        cp = self.env[self.cursor]
        if not (isinstance(cp, Ptr) and cp.base == 'cur'): raise Unsupported('cursor lost')
        adv = cp.off
        # everything up to the new cursor must be known input, not END
        for j in range(adv):
            if self.view.sym(j) == END: return 'overrun'
        return adv


def _lookbehind_groups(mem):
    """what a remembered byte index can later be asked: the byte stored there.  For an ASCII character that is the
    character; for any non-ASCII character it is a lead byte >= 0xC2, whatever the code point - one group."""
    na = frozenset(m for m in mem if is_na(m))
    return [frozenset([m]) for m in mem if not is_na(m)] + ([na] if na else [])


class DecoderScannerMachine(ScannerMachine):
    """is_6531_local: the input is consumed through utf8_decode_next(); alphabet at code-point level.
    Summary of the decoder used here (discharged separately by the decoder rules of C03):
      utf8_decode_next  -> next code point (ASCII value, or > 0x7f for NA), UTF8_END at the end, UTF8_ERROR if ill-formed;
      utf8_decode_at_byte -> byte index of the character returned last (0 iff it is the first character)."""
    cursor = '#none'
    def __init__(self, tu, fname, term=0, counters=None, name=None):
        super().__init__(tu, fname, term, counters, name)
        self.first = None; self.cur = None

    def key(self):
        # '#pend': the character read last by this step (or by the loop initialiser) is the one the NEXT step works on
        # (for (ch = next(); ch >= 0; ch = next()) ...): utf8_decode_at_byte then refers to the position just behind the window start
        pend = self.cur[0] if (self.cur is not None and self.consumed > 0 and self.cur[1] == self.consumed - 1) else None
        return super().key() + (('#first', self.first), ('#pend', pend))

    def restore(self, key):
        d = dict(key)
        self.first = d.get('#first')
        super().restore(tuple(kv for kv in key if kv[0] not in ('#first', '#pend')))
        self.env.pop(self.cursor, None)
        self.cur = (d['#pend'], -1) if d.get('#pend') is not None else None

    def initial(self, view):
        self.first = None; self.cur = None
        r = super().initial(view)
        if r[0] == 'run' and self.consumed > 0:
            # the loop initialiser already read the first character
            return ('run', self.key(), self.advance())
        return r

    def exhausted(self):
        return any(isinstance(v, int) and not isinstance(v, (Byte, bool)) and v in (self.utf8_end, self.utf8_error) for v in self.env.values())

    def call(self, n):
        name = callee_name(n)
        if name == 'utf8_decode_init':
            a = n['inner'][1:]
            p = self.ev(a[0])
            if not (isinstance(p, Ptr) and p.base == 'start' and p.off == 0): raise Unsupported('decoder not initialised at start')
            ln = self.ev(a[1])
            if ln != ('len',): raise Unsupported('decoder length is not end - start')
            return None
        if name == 'utf8_decode_next':
            sym = self.view.sym(self.consumed)
            if sym == END: return self.utf8_end
            mem = members_of(sym); idx = self.view.index(self.consumed)
            if BAD in mem:
                if len(mem) > 1: raise Refine(idx, [frozenset([BAD]), mem - {BAD}])
                return self.utf8_error
            is_first = (self.consumed == 0 and self.view.sym(-1) == START)
            if is_first and len(_lookbehind_groups(mem)) > 1:
                # the first character is remembered (start[0] may be read later): fix its class now
                raise Refine(idx, _lookbehind_groups(mem))
            self.cur = (is_first, self.consumed)
            self.consumed += 1
            if self.first is None and is_first: self.first = mem
            return self.symval(sym, idx)
        if name == 'utf8_decode_at_byte':
            if self.cur is None: raise Unsupported('at_byte before next')
            mem = members_of(self.view.sym(self.cur[1]))
            groups = _lookbehind_groups(mem)
            if len(groups) > 1:       # the index is remembered across iterations: fix the byte it points at
                raise Refine(self.view.index(self.cur[1]), groups)
            return Idx((self.cur[0], min(mem), True))
        return super().call(n)

    def ptr_diff(self, a, b):
        if a.base == 'end' and b.base == 'start' and a.off == 0 and b.off == 0: return ('len',)
        raise Unsupported('pointer difference')

    def first_byte(self):
        if self.first is None: raise Unsupported('start[0] before any character was read')
        if len(_lookbehind_groups(self.first)) != 1: raise Unsupported('start[0] read while the first character is not fixed')
        f = min(self.first)
        return Byte(f) if not is_na(f) else Byte(0xC3)

    def idx_op(self, op, a, b):
        if isinstance(a, Idx) and isinstance(b, int) and not isinstance(b, Byte):
            z = a[0]
            if b == 0 and op == '==': return int(z)
            if b == 0 and op == '!=': return int(not z)
            if b == 0 and op == '>': return int(not z)
            if b == 1 and op == '>=': return int(not z)
            if b == 1 and op == '<': return int(z)
            if b == 0 and op == '<=': return int(z)
            if b == 0 and op == '>=': return 1
            if b == 0 and op == '<': return 0
            if op in ('+', '-'): return Ptr(('at', a), b if op == '+' else -b)           # byte index + k, as the pointer start + index + k
            raise Unsupported(f'index compared with {op} {b}')
        if isinstance(a, Ptr) and isinstance(b, Idx) and op == '+' and a.base == 'start':
            return Ptr(('at', b), a.off)
        # the range length (end - start) is never negative
        for x, y, sw in ((a, b, False), (b, a, True)):
            if x == ('len',) and isinstance(y, int) and not isinstance(y, (Byte, bool)) and op in ('<', '<=', '>', '>=', '==', '!='):
                o = {'<': '>', '<=': '>=', '>': '<', '>=': '<='}.get(op, op) if sw else op
                if y < 0: return int({'<': False, '<=': False, '>': True, '>=': True, '==': False, '!=': True}[o])
                if y == 0 and o == '<': return 0
                if y == 0 and o == '>=': return 1
                raise Unsupported('the range length compared with a non-negative constant')
        # (end - start) compared with index + k  is  end compared with start + index + k
        if a == ('len',) and isinstance(b, Ptr) and isinstance(b.base, tuple) and op in ('==', '!='):
            return self.binop(op, b, Ptr('end', 0))
        if isinstance(a, Ptr) and isinstance(a.base, tuple) and b == ('len',) and op in ('==', '!='):
            return self.binop(op, a, Ptr('end', 0))
        if isinstance(a, int) and not isinstance(a, Byte) and isinstance(b, Idx) and op == '+': return Ptr(('at', b), a)
        raise Unsupported('decoder index arithmetic ' + op)

    def binop(self, op, a, b):
        # the range length (end - start) is never negative
        for x, y, sw in ((a, b, False), (b, a, True)):
            if x == ('len',) and isinstance(y, int) and not isinstance(y, (Byte, bool)) and op in ('<', '<=', '>', '>=', '==', '!='):
                o = {'<': '>', '<=': '>=', '>': '<', '>=': '<='}.get(op, op) if sw else op
                if y < 0: return int({'<': False, '<=': False, '>': True, '>=': True, '==': False, '!=': True}[o])
                if y == 0 and o == '<': return 0
                if y == 0 and o == '>=': return 1
                raise Unsupported('the range length compared with a non-negative constant')
        # (end - start) compared with index + k  is  end compared with start + index + k
        if a == ('len',) and isinstance(b, Ptr) and isinstance(b.base, tuple) and op in ('==', '!='): return self.binop(op, b, Ptr('end', 0))
        if isinstance(a, Ptr) and isinstance(a.base, tuple) and b == ('len',) and op in ('==', '!='): return self.binop(op, a, Ptr('end', 0))
        if isinstance(a, Ptr) and isinstance(a.base, tuple):
            if op == '+' and isinstance(b, int): return Ptr(a.base, a.off + b)
            if op in ('==', '!=') and isinstance(b, Ptr) and b.base == 'end' and b.off == 0:
                idx = a.base[1]
                if not idx[2]: raise Unsupported('stale index compared with end')
                if a.off != 1: raise Unsupported('index+k compared with end, k != 1')
                if is_na(idx[1]): eq = False           # a multi-byte character never ends one byte after its first byte
                else: eq = (self.view.sym(self.consumed) == END)
                return int(eq if op == '==' else not eq)
            raise Unsupported('index pointer operation ' + op)
        # a character compared with a constant at or above the largest code point: decided for every character the
        # decoder can deliver (0 .. 0x10ffff, R3.1c); other constants above 0x7f are refused by the caller's premise check
        for x, y, flip in ((a, b, False), (b, a, True)):
            if isinstance(x, (Byte, BSet)) and isinstance(y, int) and not isinstance(y, (Byte, bool)) and y >= 0x10ffff and op in ('==', '!=', '<', '<=', '>', '>='):
                o = {'<': '>', '<=': '>=', '>': '<', '>=': '<='}.get(op, op) if flip else op
                if o == '>': return 0
                if o == '<=': return 1
                if y > 0x10ffff: return {'<': 1, '>=': 0, '==': 0, '!=': 1}[o]
                raise Unsupported('comparison with U+10FFFF that distinguishes it from other non-ASCII characters')
        return super().binop(op, a, b)

    def ev(self, n):
        if n['kind'] == 'UnaryOperator' and n['opcode'] == '&':
            return ('addr', 'u')
        return super().ev(n)

    def advance(self):
        for j in range(self.consumed):
            if self.view.sym(j) == END: raise Unsupported('cursor moved past end')
        return self.consumed

    def step(self, key, view):
        r = super().step(key, view)
        return r

    def store(self, name, v):
        super().store(name, v)

    def key_value(self, v):
        return v


class DFAMachine:
    """specification / monitor automaton: init state, step(state, symbol)->state, accepting(state), dead(state)"""
    kind = 'dfa'
    def __init__(self, name, init, step, accepting, dead=None, terminal=None, verdict=None):
        self.name = name; self.init = init; self.stepf = step; self.acc = accepting; self.deadf = dead or (lambda s: False)
        self.verdict = verdict                            # state at END -> verdict (monitors); default 0 accept / 1 reject
        self.terminal = terminal or (lambda s: None)      # state -> verdict for states that end the scan early
    def initial(self, view):
        return ('run', self.init, 0)
    def step(self, st, view):
        s = view.sym(0)
        if s == END: return ('ret', self.verdict(st) if self.verdict else (0 if self.acc(st) else 1), None)
        mem = members_of(s)
        if len(mem) == 1:
            st2 = self.stepf(st, next(iter(mem)))
        else:
            groups = {}
            for m in mem: groups.setdefault(self.stepf(st, m), set()).add(m)
            if len(groups) > 1: raise Refine(view.index(0), [frozenset(g) for g in groups.values()])
            st2 = next(iter(groups))
        if self.deadf(st2): return ('ret', 1, None)
        t = self.terminal(st2)
        if t is not None: return ('ret', t, None)
        return ('run', st2, 1)


# ------------------------------------------------------------------------------------------------
def _one_behind(state):
    return 1


class Explorer:
    def __init__(self, machines, symbols, term=0, max_configs=2_000_000, lookbehind=1, on_oob=None):
        self.machines = machines; self.symbols = list(symbols); self.term = term; self.on_oob = on_oob
        self.all = frozenset(self.symbols); self.lb = lookbehind
        self.max_configs = max_configs
        self.max_seconds = float(os.environ.get('VERIF_EXPLORE_SECONDS', '400'))
        self.configs = 0; self.transitions = 0; self.leaves = 0; self.nodes = {}

    def run(self, on_leaf):
        """on_leaf(results, witness_symbols) is called for every joint configuration in which every machine has
        returned; results[i] = (rc, node).  The witness is one representative of the shortest input prefix reaching
        it (the verdicts hold for every extension of that prefix when END is not part of it, and for every member
        of the symbol sets the representatives were taken from)."""
        M = self.machines; lb = self.lb
        seen = {}; q = collections.deque(); self.seen = seen
        t_start = time.process_time()          # CPU time of this process: independent of the load other jobs put on the machine
        def push(cfg, path):
            if cfg in seen: return
            seen[cfg] = path; q.append(cfg)
            if len(seen) > self.max_configs: raise AnalysisBroken(f'joint exploration exceeds {self.max_configs} configurations')
            if len(seen) % 4096 == 0 and time.process_time() - t_start > self.max_seconds:
                raise AnalysisBroken(f'joint exploration of {[getattr(m, "name", type(m).__name__) for m in M]} exceeds its budget of {self.max_seconds} CPU-seconds ({len(seen)} configurations so far): the scanner keeps more state per position than the extraction can enumerate')
        def one(e):
            return min(e) if isinstance(e, frozenset) else e
        def expand(window, mstates, path):
            run_idx = [i for i, m in enumerate(mstates) if m[0] in ('new', 'run')]
            if not run_idx:
                self.leaves += 1
                on_leaf([(m[1], self.nodes.get(m[2])) for m in mstates], path + [one(s) for s in window if s != START and s != GONE])
                return
            i = min(run_idx, key=lambda j: (mstates[j][2] if mstates[j][0] == 'run' else -1, j))
            st = mstates[i]
            off = st[2] if st[0] == 'run' else 0
            stack = [tuple(window)]
            while stack:
                w = stack.pop()
                view = View(list(w), lb + off, self.term)
                try:
                    if st[0] == 'new': res = M[i].initial(view)
                    else: res = M[i].step(st[1], view)
                except NeedMore:
                    if w and w[-1] == END: raise AnalysisBroken(f'{M[i].name}: asks for input beyond END')
                    stack.append(w + (self.all,)); stack.append(w + (END,))
                    continue
                except Refine as r:
                    if not (0 <= r.index < len(w)) or not isinstance(w[r.index], frozenset):
                        raise AnalysisBroken(f'{M[i].name}: refinement of a position outside the window')
                    for g in r.groups:
                        stack.append(w[:r.index] + (g,) + w[r.index + 1:])
                    continue
                except OutOfRange as e:
                    if self.on_oob is None:
                        raise AnalysisBroken(f'{M[i].name}: {e} (input prefix {show(path + [one(x) for x in w if x != START and x != GONE])!r}); memory safety of the scanners is decided by C06')
                    self.on_oob(M[i], path + [one(x) for x in w if x != START and x != GONE], str(e))
                    res = ('ret', 'OOB', None)
                except Unsupported as e:
                    raise AnalysisBroken(f'{M[i].name}: outside the supported scanner subset: {e} (input prefix {show(path + [one(x) for x in w if x != START and x != GONE])!r})')
                self.transitions += 1
                ms = list(mstates)
                if res[0] == 'ret':
                    nd = res[2]
                    if nd is not None:
                        self.nodes[nd['id']] = nd; nd = nd['id']
                    ms[i] = ('ret', res[1], nd)
                else: ms[i] = ('run', res[1], off + res[2])
                # canonicalise: look-behind symbols that no running machine can read any more become GONE (their
                # representative moves to the witness trail), then symbols every machine has passed are dropped
                w2 = list(w); p2 = path
                need = [m[2] - getattr(M[j], 'need_behind', _one_behind)(m[1]) for j, m in enumerate(ms) if m[0] == 'run'] + [-1 for m in ms if m[0] == 'new']
                if need:
                    keep = lb + min(need)
                    gone = [x for x in range(0, min(keep, len(w2))) if w2[x] != START and w2[x] != GONE]
                    if gone:
                        p2 = path + [one(w2[x]) for x in gone]
                        for x in gone: w2[x] = GONE
                offs = [m[2] for m in ms if m[0] == 'run'] + [0 for m in ms if m[0] == 'new']
                if offs:
                    d = min(offs)
                    if d > 0:
                        extra = [one(x) for x in w2[:d] if x != START and x != GONE]
                        if extra: p2 = p2 + extra
                        w2 = w2[d:]
                        ms = [('run', m[1], m[2] - d) if m[0] == 'run' else m for m in ms]
                push((tuple(w2), tuple(ms)), p2)
        start_ms = tuple(('new', None, 0) for _ in M)
        push(((START,) * lb, start_ms), [])
        while q:
            cfg = q.popleft(); path = seen[cfg]
            self.configs += 1
            expand(cfg[0], cfg[1], path)
        return self


def show(symbols):
    out = []
    for c in symbols:
        if c == END: out.append('<END>')
        elif c == START: continue
        elif is_na(c): out.append('é' if c == NA + 0xE9 else ('<U+xx%02X>' % (c - NA)))
        elif c == BAD: out.append('<ILLFORMED>')
        elif 32 < c < 127: out.append(chr(c))
        else: out.append('\\x%02x' % c)
    return ''.join(out)


def run_string(machine, syms, term=0):
    """abstract evaluation of one machine on one completely specified symbol string -> (rc, node)"""
    window = [START] + list(syms) + [END]
    machine.term = term if hasattr(machine, 'term') else None
    try:
        res = machine.initial(View(window, 1, term))
        off = 0
        while res[0] == 'run':
            off += res[2]
            res = machine.step(res[1], View(window, 1 + off, term))
            if off > len(window) + 4: raise AnalysisBroken(f'{machine.name}: does not terminate on a finite string')
    except NeedMore:
        raise AnalysisBroken(f'{machine.name}: asks for input beyond END')
    except Refine:
        raise AnalysisBroken(f'{machine.name}: refinement requested on a concrete string')
    except Unsupported as e:
        raise AnalysisBroken(f'{machine.name}: outside the supported scanner subset: {e} (input {show(syms)!r})')
    return res[1], res[2]


class LenInt(int):
    """an integer derived from the input length (end - start): only +/- constants and comparisons are allowed"""
    def __add__(s, o): return LenInt(int(s) + int(o)) if not isinstance(o, (Ptr, Byte)) else NotImplemented
    def __sub__(s, o): return LenInt(int(s) - int(o)) if not isinstance(o, (Ptr, Byte)) else NotImplemented


class PrologueInterp(Interp):
    """evaluates the statements before the scanning loop for a string of concrete length n whose bytes are given
    as symbols (None = unknown).  Outcome: ('ret', rc, node) or ('scan', end_offset)."""
    def __init__(self, tu, fname):
        super().__init__(tu, fname)
        self.compared = set()
    def run(self, n, syms):
        self.n = n; self.syms = syms; self.env = {}; self.view = None
        try:
            self.ex_seq(self.pre)
        except Ret as r:
            if isinstance(r.v, (Ptr, Byte)): raise Unsupported('returns a non-code value')
            return ('ret', int(r.v), r.node)
        e = self.env.get('#end', Ptr('end', 0))
        # an indexed scan  for (i = 0; i < len; i++)  ends where its length variable says
        c = strip(self.l_cond) if self.l_cond and self.l_cond.get('kind') else None
        if c is not None and c.get('kind') == 'BinaryOperator' and c.get('opcode') == '<' and strip(c['inner'][1]).get('kind') == 'DeclRefExpr':
            L = self.env.get(strip(c['inner'][1])['referencedDecl']['name'])
            if isinstance(L, LenInt):
                if e.off != 0: raise Unsupported('both end and a length variable are adjusted before the scan')
                return ('scan', int(L) - self.n)
        return ('scan', e.off)
    def store(self, name, v):
        if name == '#end':
            if not (isinstance(v, Ptr) and v.base == 'end'): raise Unsupported('end reassigned to a non-end pointer')
            self.env['#end'] = v; return
        self.env[name] = v
    def cmp_ptr(self, op, a, b):
        pos = lambda p: {'start': 0, 'end': self.n}[p.base] + p.off
        x, y = pos(a), pos(b)
        return int({'==': x == y, '!=': x != y, '<': x < y, '<=': x <= y, '>': x > y, '>=': x >= y}[op])
    def ptr_diff(self, a, b):
        pos = lambda p: {'start': 0, 'end': self.n}[p.base] + p.off
        return LenInt(pos(a) - pos(b))
    def binop(self, op, a, b):
        if isinstance(a, LenInt) or isinstance(b, LenInt):
            if isinstance(a, (Ptr, Byte)) or isinstance(b, (Ptr, Byte)): raise Unsupported('length mixed with pointer/byte')
            if op in ('+', '-'): return LenInt(int(a) + int(b) if op == '+' else int(a) - int(b))
            if op in ('==', '!=', '<', '<=', '>', '>='):
                other = b if isinstance(a, LenInt) else a
                if not isinstance(other, LenInt): self.compared.add(int(other) if isinstance(a, LenInt) else int(other))
                x, y = int(a), int(b)
                return int({'==': x == y, '!=': x != y, '<': x < y, '<=': x <= y, '>': x > y, '>=': x >= y}[op])
            raise Unsupported('arithmetic on the input length: ' + op)
        return super().binop(op, a, b)
    def subscript_hook(self, n, base, idx):
        if isinstance(base, Ptr) and base.base == 'start' and isinstance(idx, int) and not isinstance(idx, Byte):
            i = base.off + int(idx)
            if not (0 <= i < self.n): raise OutOfRange(f'prologue reads start[{i}] of a {self.n}-byte string')
            s = self.syms.get(i) if isinstance(self.syms, dict) else self.syms[i]
            if s is None: raise Unsupported(f'prologue reads start[{i}], which the phase table does not fix')
            return Byte(s)
        if isinstance(base, Ptr) and base.base == 'end' and isinstance(idx, int) and not isinstance(idx, Byte):
            i = self.n + base.off + int(idx)
            if not (0 <= i <= self.n): raise OutOfRange(f'prologue reads end[{base.off + int(idx)}] of a {self.n}-byte string')
            if i == self.n: return Byte(0)                           # the terminator (the statement's strings are NUL-terminated)
            s = self.syms.get(i) if isinstance(self.syms, dict) else self.syms[i]
            if s is None: raise Unsupported(f'prologue reads end[{base.off + int(idx)}], which the phase table does not fix')
            return Byte(s)
        raise Unsupported('subscript in prologue')
    def ev(self, n):
        if n['kind'] == 'ArraySubscriptExpr':
            base = self.ev(n['inner'][0]); idx = self.ev(n['inner'][1])
            return self.subscript_hook(n, base, idx)
        return super().ev(n)
