"""run independent explorations in forked workers (closures are inherited by fork; results must be picklable)"""
import multiprocessing, os, traceback
from report import AnalysisBroken

_TASKS = []

def _run(i):
    try:
        return ('ok', _TASKS[i]())
    except AnalysisBroken as e:
        return ('broken', str(e))
    except Exception as e:
        return ('error', f'{type(e).__name__}: {e}\n{traceback.format_exc()}')


def forkmap(tasks, jobs=None):
    global _TASKS
    if not tasks: return []
    jobs = jobs or min(16, os.cpu_count() or 1)
    if len(tasks) == 1 or jobs <= 1 or os.environ.get('VERIF_SERIAL'):
        res = []
        _TASKS = tasks
        for i in range(len(tasks)): res.append(_run(i))
    else:
        _TASKS = tasks
        ctx = multiprocessing.get_context('fork')
        with ctx.Pool(min(jobs, len(tasks))) as p:
            res = p.map(_run, range(len(tasks)), chunksize=1)
    out = []
    for st, v in res:
        if st == 'ok': out.append(v)
        elif st == 'broken': raise AnalysisBroken(v)
        else: raise AnalysisBroken('internal error in worker: ' + v)
    return out
