"""Driver-side bookkeeping shared by every check: rules, instances, violations,
known findings, evidence files, exit-code contract (0 held / 1 violation / 2 analysis broken)."""
import json, os, sys, time, hashlib

VERIF = os.path.dirname(os.path.dirname(os.path.abspath(__file__)))
REPO = os.environ.get('VERIF_REPO', '/repo')
OUT = os.environ.get('VERIF_OUT', os.path.join(VERIF, 'out'))
KNOWN = os.path.join(VERIF, 'known_findings.json')

LEVELS = ('exploration', 'fault_enumeration', 'model_checking', 'proof', 'translation_validation', 'other')


class AnalysisBroken(Exception):
    """An anchor vanished, a rule matched fewer instances than pinned, or the source left the
    supported subset.  Never a pass, never a violation: exit status 2."""


class Rule:
    def __init__(self, check, rid, text, min_instances):
        self.check = check; self.rid = rid; self.text = text; self.min = min_instances
        self.instances = 0; self.ok = 0; self.samples = []

    def instance(self, site, ok=True, detail=None, wclass=None, what=None, witness=None):
        """one obligation of this rule at `site`; ok=False records a violation"""
        self.instances += 1
        self.check._keys.add((self.rid, str(site)))
        if ok:
            self.ok += 1
            if len(self.samples) < 4:
                self.samples.append({'site': site, 'detail': detail} if detail is not None else {'site': site})
        else:
            self.check.violation(self.rid, site, wclass or 'default', what or self.text, detail=detail, witness=witness)
        return ok


class Check:
    def __init__(self, pid, level, tier=None):
        assert level in LEVELS
        self.pid = pid; self.level = level
        self.tier = tier or os.environ.get('VERIF_TIER') or 'quick'
        if self.tier not in ('quick', 'thorough'): self.tier = 'quick'
        try: self.seed = int(os.environ.get('VERIF_SEED', '0'))
        except ValueError: self.seed = 0
        self.t0 = time.time()
        self.rules = {}; self.violations = []; self.units = []; self.functions = []
        self.assumptions = []; self.coverage_extra = {}; self.notes = []; self.not_decided = []
        self.states = 0; self.transitions = 0; self.samples = []
        self.only_rule = None
        self._keys = set()

    # ---- registration
    def rule(self, rid, text, min_instances=1):
        if rid not in self.rules: self.rules[rid] = Rule(self, rid, text, min_instances)
        return self.rules[rid]

    def wants(self, rid):
        return self.only_rule is None or rid.startswith(self.only_rule) or self.only_rule.startswith(rid)

    def analysed(self, units=(), functions=()):
        for u in units:
            if u not in self.units: self.units.append(u)
        for f in functions:
            if f not in self.functions: self.functions.append(f)

    def assume(self, text):
        if text not in self.assumptions: self.assumptions.append(text)

    def undecided(self, text):
        if text not in self.not_decided: self.not_decided.append(text)

    def sample(self, s):
        if len(self.samples) < 12: self.samples.append(s)

    def mc(self, states, transitions):
        self.states += states; self.transitions += transitions

    def violation(self, rid, site, wclass, what, detail=None, witness=None):
        self.violations.append({'rule': rid, 'site': site, 'class': wclass, 'what': what,
                                'detail': detail, 'witness': witness})

    def broken(self, msg):
        raise AnalysisBroken(msg)

    # ---- finish
    def _known(self):
        try:
            with open(KNOWN) as f: k = json.load(f)
        except FileNotFoundError:
            return []
        return [e for e in k.get('findings', []) if e.get('property') == self.pid and e.get('status', 'open') == 'open']

    def finish(self):
        for r in self.rules.values():
            if r.instances < r.min:
                raise AnalysisBroken(f'rule {r.rid} matched {r.instances} instance(s), pinned minimum is {r.min}: {r.text}')
        known = self._known()
        new = []; kf_lines = []
        seen = set()
        for v in self.violations:
            key = (v['rule'], v['site'], v['class'])
            if key in seen: continue
            seen.add(key)
            m = [e for e in known if e['rule'] == v['rule'] and e['site'] == v['site'] and e.get('class', 'default') == v['class']]
            if m: kf_lines.append((m[0], v))
            else: new.append(v)
        wall = time.time() - self.t0
        obligations = sum(r.instances for r in self.rules.values())
        discharged = sum(r.ok for r in self.rules.values())
        cov = {
            'explanation': f'static analysis of {REPO} working tree; {len(self.units)} translation unit(s), '
                           f'{len(self.functions)} function(s), {len(self.rules)} rule(s), {obligations} obligation(s) '
                           f'({discharged} discharged). ' + ' '.join(self.notes),
            'obligations': obligations, 'discharged': discharged,
            'evaluations': max(obligations, 1),
            'distinct_nontrivial': len(self._keys),
            'rule': 'one evaluation = one rule instance (a construct in the source that the rule constrains); distinct = distinct (rule, site) pairs',
            'units': self.units, 'functions': self.functions,
            'rules': [{'id': r.rid, 'text': r.text, 'instances': r.instances, 'pinned_min': r.min, 'held': r.ok} for r in self.rules.values()],
            'samples': (self.samples + [dict(rule=rid, **s) for rid, r in self.rules.items() for s in r.samples[:2]])[:24] or ['(none)'],
            'exhaustive': True,
            'not_decided': self.not_decided,
            'known_findings_reported': [k['id'] for k, _ in kf_lines],
        }
        if self.level == 'model_checking':
            cov['states'] = max(self.states, 1); cov['transitions'] = max(self.transitions, 1)
            cov['traces_validated_against_impl'] = 0
        if self.level == 'translation_validation':
            cov.setdefault('programs', 1); cov.setdefault('disagreements_checked', 0)
        cov.update(self.coverage_extra)
        ev = {'property_id': self.pid, 'tier': self.tier, 'seed': self.seed, 'level': self.level,
              'coverage': cov, 'assumptions': self.assumptions, 'wall_s': round(wall, 3),
              'violations': len(new) + len(kf_lines)}
        os.makedirs(os.path.join(VERIF, 'evidence'), exist_ok=True)
        evpath = os.environ.get('VERIF_EVIDENCE_DIR', os.path.join(VERIF, 'evidence'))
        os.makedirs(evpath, exist_ok=True)
        with open(os.path.join(evpath, self.pid + '.json'), 'w') as f:
            json.dump(ev, f, indent=1, ensure_ascii=False, default=str); f.write('\n')
        # ---- human-readable report
        print(f'== {self.pid} [{self.tier}] units={len(self.units)} functions={len(self.functions)} '
              f'rules={len(self.rules)} obligations={obligations} discharged={discharged} wall={wall:.2f}s')
        for r in self.rules.values():
            print(f'   rule {r.rid}: {r.ok}/{r.instances} held (pinned >= {r.min}) -- {r.text}')
        for k, v in kf_lines:
            print(f'KNOWN-FINDING: property={self.pid} {k["id"]} rule={v["rule"]} site={v["site"]} {k.get("what", v["what"])}')
        if new:
            vdir = os.path.join(OUT, self.pid); os.makedirs(vdir, exist_ok=True)
            for i, v in enumerate(new):
                path = os.path.join(vdir, f'{i}.json')
                v = dict(v, property=self.pid, replay_cmd=f'./check {self.pid} --replay {path}')
                with open(path, 'w') as f: json.dump(v, f, indent=1, default=str)
                print(f'   violation: rule={v["rule"]} site={v["site"]} class={v["class"]}: {v["what"]}')
                if v.get('witness') is not None: print(f'      witness: {v["witness"]!r}')
                if v.get('detail') is not None: print(f'      detail: {json.dumps(v["detail"], default=str)[:600]}')
                print(f'VIOLATION property={self.pid} replay={path}')
            return 1
        print(f'OK property={self.pid}')
        return 0


def run_check(main):
    """wrap a check's main(): map AnalysisBroken (and engine faults) to exit 2"""
    try:
        rc = main()
    except AnalysisBroken as e:
        print(f'ANALYSIS-BROKEN: {e}')
        sys.exit(2)
    except SystemExit:
        raise
    except Exception as e:                       # an engine fault is never a pass and never a violation
        import traceback; traceback.print_exc()
        print(f'ANALYSIS-BROKEN: internal error {type(e).__name__}: {e}')
        sys.exit(2)
    sys.exit(rc)
