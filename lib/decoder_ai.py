"""A2: strictness of the UTF-8 decoder by interval abstract interpretation with on-demand case splitting.

utf8_decode_next() (with get()/cont() inlined from the same unit) is loop-free.  Its input is the next (at most
four) bytes B0..B3 of the buffer and the number of bytes still available.  Each byte is an interval of 0..255;
the evaluator computes with intervals (value range, known-zero low bits, contributing bytes) and, whenever a
comparison or mask is not determinate on the current box, bisects one contributing byte and re-runs.  The result
is a finite partition of (available, B0, B1, B2, B3) into boxes, each with one outcome:
  ('char', bytes consumed, [min,max] of the returned value) | ('end',) | ('error', bytes consumed).
The accepted boxes are then compared, by box subtraction in both directions, with RFC 3629's table of well-formed
sequences.  Nothing is executed."""
from astutil import strip, walk, where, callee_name
from report import AnalysisBroken


class Split(Exception):
    def __init__(s, var): s.var = var

class OutOfBounds(Exception):
    def __init__(s, idx, node): s.idx = idx; s.node = node

class Ret(Exception):
    def __init__(s, v, node): s.v = v; s.node = node


class Iv:
    """integer interval with provenance: which input bytes it depends on"""
    __slots__ = ('lo', 'hi', 'vars', 'pure', 'z')
    def __init__(s, lo, hi, vars_=(), pure=None, z=0): s.lo = lo; s.hi = hi; s.vars = frozenset(vars_); s.pure = pure; s.z = z
    def const(s): return s.lo == s.hi
    def __repr__(s): return f'Iv[{s.lo},{s.hi}]{sorted(s.vars)}'


def iv(x):
    return x if isinstance(x, Iv) else Iv(x, x)


class Eval:
    def __init__(self, tu):
        self.tu = tu
        for f in ('utf8_decode_next',):
            if f not in tu.functions: raise AnalysisBroken(f'decoder function {f} not found in {tu.unit.key}')
        self.nsplit = 0

    # ---- one abstract run on a box
    def run(self, avail, box):
        """avail: number of bytes available (0..4, 4 = four or more); box: {j: (lo, hi)} for j < avail"""
        self.box = box; self.avail = avail
        self.fields = {'the_index': 0, 'the_length': avail, 'the_char': Iv(0, 1 << 30), 'the_byte': ('old',), 'the_input': ('input',)}
        self.gets = 0
        try:
            self.call_fn('utf8_decode_next', [('u',)])
        except Ret as r:
            return r.v, r.node
        raise AnalysisBroken('utf8_decode_next falls off its end')

    def call_fn(self, name, args):
        fn = self.tu.fn(name)
        params = [c['name'] for c in fn.get('inner', []) if c.get('kind') == 'ParmVarDecl']
        env = dict(zip(params, args))
        body = [c for c in fn['inner'] if c.get('kind') == 'CompoundStmt'][0]
        saved = getattr(self, 'env', None)
        self.env = env
        try:
            self.ex(body)
        except Ret as r:
            self.env = saved
            if name == 'utf8_decode_next': raise
            return r.v
        self.env = saved
        if name == 'utf8_decode_next': raise AnalysisBroken('utf8_decode_next: no return')
        return None

    # ---- statements
    def ex(self, n):
        k = n['kind']
        if k == 'CompoundStmt':
            for c in n.get('inner', []): self.ex(c)
            return
        if k == 'DeclStmt':
            for v in n['inner']:
                if v.get('kind') != 'VarDecl': continue
                init = [c for c in v.get('inner', []) if 'Comment' not in c['kind']]
                self.env[v['name']] = self.ev(init[0]) if init else None
            return
        if k == 'IfStmt':
            c = n['inner']
            if self.truth(self.ev(c[0])): self.ex(c[1])
            elif len(c) > 2: self.ex(c[2])
            return
        if k == 'ReturnStmt': raise Ret(self.ev(n['inner'][0]) if n.get('inner') else None, n)
        if k == 'NullStmt': return
        if k in ('ForStmt', 'WhileStmt', 'DoStmt', 'SwitchStmt', 'GotoStmt'):
            raise AnalysisBroken(f'decoder: unsupported statement {k} at {where(n)} (the decoder is expected to be loop-free)')
        self.ev(n)

    def truth(self, v):
        v = iv(v)
        if v.lo > 0 or v.hi < 0: return True
        if v.lo == 0 and v.hi == 0: return False
        self.split(v)

    def split(self, v):
        cands = [j for j in v.vars if self.box[j][0] < self.box[j][1]]
        if not cands: raise AnalysisBroken(f'decoder: indeterminate value {v} with no byte left to split')
        raise Split(min(cands))      # most significant byte first

    # ---- expressions
    def ev(self, n):
        k = n['kind']
        if k in ('ImplicitCastExpr', 'CStyleCastExpr') and n.get('type', {}).get('qualType') in ('unsigned char', 'const unsigned char'):
            v = self.ev(n['inner'][0])
            if isinstance(v, tuple) and v and v[0] == 'rawbyte':
                j = v[1]; lo, hi = self.box[j]; return Iv(lo, hi, [j], pure=j)          # (unsigned char) c  is  c & 0xFF
            return v
        if k in ('ImplicitCastExpr', 'ParenExpr', 'CStyleCastExpr', 'ConstantExpr'): return self.ev(n['inner'][0])
        if k in ('IntegerLiteral', 'CharacterLiteral'): return int(n['value'])
        if k == 'DeclRefExpr':
            nm = n['referencedDecl']['name']
            if n['referencedDecl'].get('kind') == 'EnumConstantDecl': return self.tu.enums[nm]
            if nm not in self.env:
                # the tool's copy of the decoder keeps its cursor in file-scope variables of the same names
                if nm in self.fields and nm in self.tu.globals: return self.fields[nm]
                raise AnalysisBroken(f'decoder: read of unknown variable {nm} at {where(n)}')
            return self.env[nm]
        if k == 'MemberExpr':
            base = self.ev(n['inner'][0])
            if base != ('u',): raise AnalysisBroken(f'decoder: member access on {base} at {where(n)}')
            return self.fields[n['name']]
        if k == 'ArraySubscriptExpr':
            base = self.ev(n['inner'][0]); idx = self.ev(n['inner'][1])
            if base != ('input',) or not isinstance(idx, int): raise AnalysisBroken(f'decoder: unsupported subscript at {where(n)}')
            if idx >= self.avail or idx < 0: raise OutOfBounds(idx, n)
            return ('rawbyte', idx)
        if k == 'UnaryOperator':
            op = n['opcode']
            if op == '-':
                v = iv(self.ev(n['inner'][0])); return Iv(-v.hi, -v.lo, v.vars) if not v.const() else -v.lo
            if op == '!': return int(not self.truth(self.ev(n['inner'][0])))
            if op in ('++', '--'):
                lhs = n['inner'][0]
                old_v = self.ev(lhs)
                new_v = self.binop('+' if op == '++' else '-', old_v, 1)
                self.assign(lhs, new_v)
                return old_v if n.get('isPostfix') else new_v
            raise AnalysisBroken(f'decoder: unary {op} at {where(n)}')
        if k == 'ConditionalOperator':
            return self.ev(n['inner'][1 if self.truth(self.ev(n['inner'][0])) else 2])
        if k == 'CallExpr':
            nm = callee_name(n)
            if nm in self.tu.functions and nm != 'utf8_decode_next' and self.tu.in_unit_file(self.tu.functions[nm]): return self.call_fn(nm, [self.ev(a) for a in n['inner'][1:]])      # byte readers / helpers of the decoder's own unit
            raise AnalysisBroken(f'decoder: call of {nm} at {where(n)}')
        if k == 'CompoundAssignOperator':
            lhs = n['inner'][0]; v = self.binop(n['opcode'][:-1], self.ev(lhs), self.ev(n['inner'][1]))
            self.assign(lhs, v); return v
        if k == 'BinaryOperator':
            op = n['opcode']
            if op == '=':
                v = self.ev(n['inner'][1]); self.assign(n['inner'][0], v); return v
            if op == '&&': return int(self.truth(self.ev(n['inner'][0])) and self.truth(self.ev(n['inner'][1])))
            if op == '||': return int(self.truth(self.ev(n['inner'][0])) or self.truth(self.ev(n['inner'][1])))
            return self.binop(op, self.ev(n['inner'][0]), self.ev(n['inner'][1]))
        raise AnalysisBroken(f'decoder: unsupported expression {k} at {where(n)}')

    def assign(self, lhs, v):
        lhs = strip(lhs)
        if lhs['kind'] == 'DeclRefExpr' and not (lhs['referencedDecl']['name'] not in self.env and lhs['referencedDecl']['name'] in self.fields and lhs['referencedDecl']['name'] in self.tu.globals):
            self.env[lhs['referencedDecl']['name']] = v; return
        if lhs['kind'] == 'DeclRefExpr':
            lhs = {'kind': 'MemberExpr', 'name': lhs['referencedDecl']['name'], 'inner': None}
        if lhs['kind'] == 'MemberExpr' and (lhs['inner'] is None or self.ev(lhs['inner'][0]) == ('u',)):
            if lhs['name'] == 'the_index':
                if not isinstance(v, int): raise AnalysisBroken('decoder: the_index becomes input dependent')
                self.gets = v
            self.fields[lhs['name']] = v; return
        raise AnalysisBroken(f'decoder: unsupported assignment target at {where(lhs)}')

    def binop(self, op, a, b):
        # raw byte reads must be masked with 0xFF first (char may be signed)
        for x, y in ((a, b), (b, a)):
            if isinstance(x, tuple) and x and x[0] == 'rawbyte':
                if op == '&' and y == 0xFF:
                    j = x[1]; lo, hi = self.box[j]; return Iv(lo, hi, [j], pure=j)
                raise AnalysisBroken('decoder: input byte used without the & 0xFF mask')
        for x, y in ((a, b), (b, a)):
            # the state / input pointers are never NULL (every caller passes the address of an object): a NULL guard is dead
            if x in (('u',), ('input',)) and y == 0 and op in ('==', '!='): return int(op == '!=')
        if isinstance(a, tuple) or isinstance(b, tuple): raise AnalysisBroken(f'decoder: operator {op} on a non-integer')
        A, B = iv(a), iv(b)
        vs = A.vars | B.vars
        if op == '+': return self.norm(Iv(A.lo + B.lo, A.hi + B.hi, vs))
        if op == '-': return self.norm(Iv(A.lo - B.hi, A.hi - B.lo, vs))
        if op in ('>=', '>', '<', '<=', '==', '!='):
            if op == '>=': t, f = A.lo >= B.hi, A.hi < B.lo
            elif op == '>': t, f = A.lo > B.hi, A.hi <= B.lo
            elif op == '<': t, f = A.hi < B.lo, A.lo >= B.hi
            elif op == '<=': t, f = A.hi <= B.lo, A.lo > B.hi
            elif op == '==': t, f = (A.const() and B.const() and A.lo == B.lo), (A.hi < B.lo or A.lo > B.hi)
            else: t, f = (A.hi < B.lo or A.lo > B.hi), (A.const() and B.const() and A.lo == B.lo)
            if t: return 1
            if f: return 0
            self.split(Iv(0, 1, vs))
        if op == '<<':
            if not B.const() or A.lo < 0: raise AnalysisBroken('decoder: shift of a possibly negative value or by a non-constant')
            return self.norm(Iv(A.lo << B.lo, A.hi << B.lo, vs, z=self.low_zero_bits(A) + B.lo))
        if op in ('&', '|'):
            if A.const() and B.const(): return (A.lo & B.lo) if op == '&' else (A.lo | B.lo)
            # exact on a single pure byte or small range: enumerate
            for X, Y in ((A, B), (B, A)):
                if Y.const() and X.hi - X.lo <= 255 and (X.pure is not None or X.const()):
                    vals = [(v & Y.lo) if op == '&' else (v | Y.lo) for v in range(X.lo, X.hi + 1)]
                    if min(vals) == max(vals): return vals[0]
                    if all(vals[i] - vals[0] == i for i in range(len(vals))): return Iv(vals[0], vals[-1], X.vars)
                    self.split(X)
            if op == '|':
                if A.lo < 0 or B.lo < 0:
                    # sign test idiom (c1 | c2) >= 0 : negative iff one operand negative
                    if A.hi < 0 or B.hi < 0: return Iv(-(1 << 31), -1, vs)
                    self.split(Iv(0, 1, vs))
                # disjoint bit fields: one operand is a multiple of 2^s, the other is below 2^s
                for X, Y in ((A, B), (B, A)):
                    s = Y.hi.bit_length()
                    if self.low_zero_bits(X) >= s: return Iv(X.lo + Y.lo, X.hi + Y.hi, vs, z=min(self.low_zero_bits(X), self.low_zero_bits(Y)))
                # overlapping non-negative operands: sound over-approximation (enough for sign tests)
                return Iv(max(A.lo, B.lo), (1 << max(A.hi.bit_length(), B.hi.bit_length())) - 1, vs)
            self.split(Iv(0, 1, vs))
        raise AnalysisBroken(f'decoder: unsupported operator {op}')

    def norm(self, v):
        return v.lo if v.const() else v

    def low_zero_bits(self, X):
        """number of low bits known to be zero in every value of X"""
        if X.const(): return (X.lo & -X.lo).bit_length() - 1 if X.lo else 64
        return X.z


def analyse(tu, max_boxes=200000):
    """-> list of (avail, box, outcome) ; outcome = ('char', n, lo, hi, the_byte_ok) | ('end',) | ('error', n) | ('other', value)"""
    ev = Eval(tu)
    cells = []
    END = ERR = None
    work = []
    for avail in range(0, 5):
        work.append((avail, {j: (0, 255) for j in range(min(avail, 4))}))
    nrun = 0
    while work:
        avail, box = work.pop()
        nrun += 1
        if nrun > max_boxes: raise AnalysisBroken('decoder: case splitting does not converge')
        try:
            v, node = ev.run(avail, box)
        except Split as s:
            lo, hi = box[s.var]; mid = (lo + hi) // 2
            b1 = dict(box); b1[s.var] = (lo, mid); b2 = dict(box); b2[s.var] = (mid + 1, hi)
            work.append((avail, b1)); work.append((avail, b2)); continue
        except OutOfBounds as o:
            cells.append((avail, dict(box), None, None, o.idx, False, o.node)); continue
        V = iv(v)
        byte_ok = (ev.fields['the_byte'] == 0) if avail > 0 else (ev.fields['the_byte'] == ('old',))   # the_byte := the_index before the first get; an END return leaves it alone
        cells.append((avail, dict(box), V.lo, V.hi, ev.gets, byte_ok, node))
    return cells, nrun


# ---- RFC 3629 table 3-7 (well-formed byte sequences) ---------------------------------------------
WELL_FORMED = [
    [(0x00, 0x7F)],
    [(0xC2, 0xDF), (0x80, 0xBF)],
    [(0xE0, 0xE0), (0xA0, 0xBF), (0x80, 0xBF)],
    [(0xE1, 0xEC), (0x80, 0xBF), (0x80, 0xBF)],
    [(0xED, 0xED), (0x80, 0x9F), (0x80, 0xBF)],
    [(0xEE, 0xEF), (0x80, 0xBF), (0x80, 0xBF)],
    [(0xF0, 0xF0), (0x90, 0xBF), (0x80, 0xBF), (0x80, 0xBF)],
    [(0xF1, 0xF3), (0x80, 0xBF), (0x80, 0xBF), (0x80, 0xBF)],
    [(0xF4, 0xF4), (0x80, 0x8F), (0x80, 0xBF), (0x80, 0xBF)],
]


def decode(bs):
    n = len(bs)
    if n == 1: return bs[0]
    if n == 2: return ((bs[0] & 0x1F) << 6) | (bs[1] & 0x3F)
    if n == 3: return ((bs[0] & 0x0F) << 12) | ((bs[1] & 0x3F) << 6) | (bs[2] & 0x3F)
    return ((bs[0] & 0x07) << 18) | ((bs[1] & 0x3F) << 12) | ((bs[2] & 0x3F) << 6) | (bs[3] & 0x3F)


def box_subtract(a, b):
    """a \\ b for boxes given as lists of (lo,hi) of equal length -> list of boxes"""
    for (al, ah), (bl, bh) in zip(a, b):
        if ah < bl or al > bh: return [a]
    out = []; cur = list(a)
    for i, ((al, ah), (bl, bh)) in enumerate(zip(a, b)):
        if al < bl:
            p = list(cur); p[i] = (al, bl - 1); out.append(p); cur[i] = (bl, cur[i][1])
        if ah > bh:
            p = list(cur); p[i] = (bh + 1, ah); out.append(p); cur[i] = (cur[i][0], bh)
    return out


def subtract_all(boxes, subs):
    for s in subs:
        nxt = []
        for b in boxes: nxt += box_subtract(b, s)
        boxes = nxt
        if not boxes: break
    return boxes
