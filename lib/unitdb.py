"""Unit database: which translation units exist, with the real build's flags (from `make -n -B`),
plus the two never-built IDN backends (parsed against declaration-only stub headers).
Produces clang JSON AST dumps, -O0 -g LLVM IR and preprocessed text, one file per unit, in parallel."""
import os, re, shlex, subprocess, json, shutil, tempfile, atexit
from concurrent.futures import ThreadPoolExecutor
from report import REPO, VERIF, OUT, AnalysisBroken

CLANG = 'clang-14'
OPTS = ('RFC6531_FOLLOW_RFC5322', 'RFC6531_FOLLOW_RFC20', 'LABELS_ALLOW_UNDERSCORE')


class Unit:
    def __init__(self, group, path, flags, cwd, variant=''):
        self.group = group; self.path = path; self.flags = flags; self.cwd = cwd; self.variant = variant
    @property
    def rel(self): return os.path.relpath(self.path, REPO)
    @property
    def key(self): return (self.variant + ':' if self.variant else '') + self.rel
    def __repr__(self): return f'Unit({self.key})'


def make_dry_run(options=None, extra=()):
    """compile lines of `make -n -B` (builds nothing).  options: dict OPT->'ON'"""
    cmd = ['make', '-n', '-B', '-C', REPO] + [f'{k}={v}' for k, v in (options or {}).items()] + list(extra)
    env = dict(os.environ); env.pop('MAKEFLAGS', None)
    for o in OPTS: env.pop(o, None)
    p = subprocess.run(cmd, capture_output=True, text=True, env=env)
    if p.returncode != 0:
        raise AnalysisBroken(f'make -n failed: {p.stderr[-400:]}')
    return p.stdout


def parse_compile_lines(text):
    """-> list of (cwd, argv) for every compile command (has -c <file>.c)"""
    cwd = REPO; stack = []; out = []
    for line in text.splitlines():
        m = re.match(r"make\[\d+\]: Entering directory '(.*)'", line)
        if m: stack.append(cwd); cwd = m.group(1); continue
        if re.match(r"make\[\d+\]: Leaving directory", line):
            cwd = stack.pop() if stack else REPO; continue
        if ' -c ' not in line: continue
        try: argv = shlex.split(line)
        except ValueError: continue
        if not argv or not re.fullmatch(r'(.*/)?(cc|gcc|clang|c99|clang-\d+|gcc-\d+)', argv[0]): continue
        out.append((cwd, argv))
    return out


def unit_from_argv(cwd, argv, group=None, variant=''):
    flags = []; src = None; i = 1
    while i < len(argv):
        a = argv[i]
        if a == '-o': i += 2; continue
        if a == '-c': i += 1; continue
        if a.endswith('.c') and not a.startswith('-'): src = a; i += 1; continue
        flags.append(a); i += 1
    if src is None: return None
    path = os.path.normpath(os.path.join(cwd, src))
    rel = os.path.relpath(path, REPO)
    if group is None:
        group = ('cli' if rel.startswith('bin/') else 'idn2' if rel.startswith('partial/idn2/') else
                 'idn' if rel.startswith('partial/idn/') else 'idnkit' if rel.startswith('partial/idnkit/') else
                 'core' if rel.startswith('src/') else 'tests' if rel.startswith('tests/') else 'other')
    # make include paths absolute so units can be analysed from any cwd
    fl = []
    for f in flags:
        if f.startswith('-I') and len(f) > 2 and not os.path.isabs(f[2:]): f = '-I' + os.path.normpath(os.path.join(cwd, f[2:]))
        fl.append(f)
    return Unit(group, path, fl, cwd, variant)


_cache = {}

def units(options=None, variant='', extra_defs=()):
    """all units of one configuration: core + configured backend + cli from make, idn/idnkit via stubs"""
    key = (tuple(sorted((options or {}).items())), variant, tuple(extra_defs))
    if key in _cache: return _cache[key]
    lines = parse_compile_lines(make_dry_run(options))
    us = [u for u in (unit_from_argv(c, a, variant=variant) for c, a in lines) if u]
    us = [u for u in us if u.group in ('core', 'cli', 'idn2', 'idn', 'idnkit')]
    if not us: raise AnalysisBroken('make -n produced no compile lines')
    built = {u.group for u in us}
    backend = [g for g in ('idn2', 'idn', 'idnkit') if g in built]
    if len(backend) != 1:
        raise AnalysisBroken(f'expected exactly one configured IDN backend, make -n shows {backend}')
    proto = [u for u in us if u.group == backend[0]][0]
    have = {'idn2': '-DHAVE_LIBIDN2', 'idn': '-DHAVE_LIBIDN', 'idnkit': '-DHAVE_IDNKIT'}
    for g in ('idn2', 'idn', 'idnkit'):
        if g in built: continue
        d = os.path.join(REPO, 'partial', g)
        if not os.path.isdir(d): continue
        fl = [f for f in proto.flags if f not in have.values()] + [have[g], '-I' + os.path.join(VERIF, 'stubs', g)]
        for fn in sorted(os.listdir(d)):
            if fn.endswith('.c'): us.append(Unit(g, os.path.join(d, fn), fl, REPO, variant))
    for u in us:
        u.flags = u.flags + list(extra_defs)
    _cache[key] = us
    return us


# ---------------------------------------------------------------------------------------------
_work = None
def workdir():
    global _work
    if _work is None:
        os.makedirs(OUT, exist_ok=True)
        _work = tempfile.mkdtemp(prefix='work.', dir=OUT)
        atexit.register(lambda: shutil.rmtree(_work, ignore_errors=True))
    return _work


def _run(argv, cwd):
    p = subprocess.run(argv, capture_output=True, cwd=cwd)
    return p


def _outname(u, suffix):
    return os.path.join(workdir(), re.sub(r'[^A-Za-z0-9_.-]', '_', u.key) + suffix)


def dump_ast(u):
    out = _outname(u, '.ast.json')
    if os.path.exists(out): return out
    with open(out, 'wb') as f:
        p = subprocess.run([CLANG, '-fsyntax-only', '-w', '-Xclang', '-ast-dump=json'] + u.flags + [u.path],
                           stdout=f, stderr=subprocess.PIPE, cwd=u.cwd)
    if p.returncode != 0:
        os.unlink(out)
        raise AnalysisBroken(f'{u.key} does not parse: {p.stderr.decode()[-600:]}')
    return out


def dump_ir(u):
    out = _outname(u, '.ll')
    if os.path.exists(out): return out
    p = _run([CLANG, '-S', '-emit-llvm', '-w'] + u.flags + ['-O0', '-g', '-fno-discard-value-names', '-o', out, u.path], u.cwd)
    if p.returncode != 0:
        raise AnalysisBroken(f'{u.key}: no IR: {p.stderr.decode()[-600:]}')
    return out


def dump_pp(u):
    out = _outname(u, '.i')
    if os.path.exists(out): return out
    p = _run([CLANG, '-E', '-P', '-w'] + u.flags + ['-o', out, u.path], u.cwd)
    if p.returncode != 0:
        raise AnalysisBroken(f'{u.key}: preprocess failed: {p.stderr.decode()[-600:]}')
    return out


def parallel(fn, items, jobs=16):
    with ThreadPoolExecutor(max_workers=jobs) as ex:
        return list(ex.map(fn, items))


def load_asts(us):
    """-> {unit.key: TU}"""
    import astutil
    paths = parallel(dump_ast, us)
    return {u.key: astutil.TU(p, u) for u, p in zip(us, paths)}
