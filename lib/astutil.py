"""Access to clang's JSON AST: absolute source locations, enum constants as clang evaluated them,
function/record/variable lookup, callee resolution through referencedDecl ids (never by spelling)."""
import json, os
from report import AnalysisBroken, REPO

TRANSPARENT = ('ImplicitCastExpr', 'ParenExpr', 'CStyleCastExpr', 'ConstantExpr')


def strip(n):
    while n.get('kind') in TRANSPARENT:
        n = n['inner'][0]
    return n


def _fill_locations(root):
    """clang's JSON dumper omits "file"/"line" when unchanged since the previously printed location.
    Walk in document order and make every bare location absolute (adds _file/_line)."""
    state = {'file': None, 'line': None}
    stack = [root]
    # iterative DFS preserving document order
    def visit(obj):
        if isinstance(obj, dict):
            if 'offset' in obj and ('col' in obj or 'tokLen' in obj):
                if 'file' in obj: state['file'] = obj['file']
                if 'line' in obj: state['line'] = obj['line']
                obj['_file'] = state['file']; obj['_line'] = state['line']
                return
            for k, v in obj.items():
                if k in ('loc', 'range', 'begin', 'end', 'spellingLoc', 'expansionLoc', 'inner'):
                    visit(v)
        elif isinstance(obj, list):
            for x in obj: visit(x)
    import sys
    old = sys.getrecursionlimit(); sys.setrecursionlimit(max(old, 20000))
    try: visit(root)
    finally: sys.setrecursionlimit(old)


def loc_of(n):
    """(file, line) where the construct is *used* (expansion location for macro bodies)"""
    for key in ('range', 'loc'):
        l = n.get(key)
        if not l: continue
        if key == 'range': l = l.get('begin', {})
        if 'expansionLoc' in l: l = l['expansionLoc']
        if l.get('_file') or l.get('_line'): return (l.get('_file'), l.get('_line'))
    return (None, None)


def spelling_loc_of(n):
    l = n.get('range', {}).get('begin', {})
    if 'spellingLoc' in l: l = l['spellingLoc']
    return (l.get('_file'), l.get('_line'))


def line_of(n):
    return loc_of(n)[1]


def rel(path):
    if path is None: return None
    path = os.path.normpath(path)
    if path.startswith(REPO + '/'): return path[len(REPO) + 1:]
    return path


def where(n):
    f, l = loc_of(n); sf, sl = spelling_loc_of(n)
    s = f'{rel(f)}:{l}'
    if (sf, sl) != (f, l) and sf is not None: s += f' (macro body {rel(sf)}:{sl})'
    return s


def walk(n):
    yield n
    for c in n.get('inner', []) or []:
        yield from walk(c)


def find(n, kind):
    return [m for m in walk(n) if m.get('kind') == kind]


class TU:
    def __init__(self, path, unit=None):
        with open(path) as f: self.root = json.load(f)
        self.unit = unit; self.path = path
        _fill_locations(self.root)
        self.enums = {}          # enumerator name -> int
        self.enum_decls = {}     # enum type/typedef name -> [enumerator names in order]
        self.functions = {}      # name -> FunctionDecl with a body
        self.decls_by_id = {}
        self.records = {}        # struct name -> [field names]
        self.typedefs = {}
        self.globals = {}        # name -> VarDecl (file scope)
        self._index()

    def _index(self):
        anon = 0
        last_enum = None
        for n in self.root.get('inner', []):
            k = n.get('kind')
            if 'id' in n: self.decls_by_id[n['id']] = n
            if k == 'EnumDecl':
                names = self._enum(n)
                if n.get('name'): self.enum_decls[n['name']] = names
                else: anon += 1; self.enum_decls[f'<anon{anon}>'] = names
                last_enum = (n.get('id'), names)
            elif k == 'TypedefDecl':
                self.typedefs[n['name']] = n
                # typedef enum {...} NAME;
                for m in walk(n):
                    if m.get('kind') == 'EnumType' and last_enum and m.get('decl', {}).get('id') == last_enum[0]:
                        self.enum_decls[n['name']] = last_enum[1]
            elif k == 'FunctionDecl':
                if any(c.get('kind') == 'CompoundStmt' for c in n.get('inner', [])):
                    self.functions[n['name']] = n
            elif k == 'RecordDecl':
                if n.get('completeDefinition'):
                    self.records[n.get('name', f'<anon{n["id"]}>')] = [c['name'] for c in n.get('inner', []) if c.get('kind') == 'FieldDecl']
            elif k == 'VarDecl':
                self.globals[n['name']] = n
        for f in self.functions.values(): f['_tufuncs'] = self.functions      # lets an analysis follow calls to helpers of the same unit

    def _enum(self, n):
        val = -1; names = []
        for c in n.get('inner', []):
            if c.get('kind') != 'EnumConstantDecl': continue
            val += 1
            r = None
            for m in walk(c):
                if m is c: continue
                if m.get('kind') == 'ConstantExpr' and 'value' in m: r = int(m['value']); break
                if m.get('kind') == 'IntegerLiteral': r = int(m['value']); break
            if r is not None and c.get('inner'): val = r
            self.enums[c['name']] = val; names.append(c['name'])
        return names

    def fn(self, name):
        f = self.functions.get(name)
        if f is None:
            raise AnalysisBroken(f'function {name} not found in {self.unit.key if self.unit else self.path}')
        return f

    def body(self, name):
        return [c for c in self.fn(name)['inner'] if c.get('kind') == 'CompoundStmt'][0]

    def params(self, name):
        return [c['name'] for c in self.fn(name).get('inner', []) if c.get('kind') == 'ParmVarDecl']

    def in_unit_file(self, n):
        f = loc_of(n)[0]
        return f is not None and self.unit is not None and os.path.normpath(f) == os.path.normpath(self.unit.path)

    def own_functions(self):
        """functions whose body is written in this unit's own .c file or in a repo header"""
        out = {}
        for name, f in self.functions.items():
            file = loc_of(f)[0]
            if file and os.path.normpath(file).startswith(REPO): out[name] = f
        return out


def callee_name(call):
    """resolved callee of a CallExpr: the referenced FunctionDecl's name, or None for indirect calls"""
    c = strip(call['inner'][0])
    if c.get('kind') == 'DeclRefExpr' and c['referencedDecl'].get('kind') == 'FunctionDecl':
        return c['referencedDecl']['name']
    return None


def calls_in(n):
    return [(callee_name(c), c) for c in find(n, 'CallExpr')]
