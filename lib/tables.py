import re
"""Engine D: tables.  Initialiser lists and enums read from the AST (values as clang evaluated them),
CSV files, the Perl generators' parameters, Makefile rules."""
import csv, os, re
from astutil import strip, walk, find
from report import AnalysisBroken, REPO


def c_unescape(lit):
    """value of a C string literal as spelled in clang's JSON ("...")"""
    if not (lit.startswith('"') and lit.endswith('"')):
        raise AnalysisBroken(f'unexpected string literal spelling {lit!r}')
    s = lit[1:-1]; out = []; i = 0
    simple = {'n': '\n', 't': '\t', 'r': '\r', '0': '\0', '\\': '\\', '"': '"', "'": "'", 'a': '\a', 'b': '\b', 'f': '\f', 'v': '\v', '?': '?'}
    while i < len(s):
        c = s[i]
        if c != '\\': out.append(c); i += 1; continue
        i += 1; e = s[i]
        if e == 'x':
            j = i + 1
            while j < len(s) and s[j] in '0123456789abcdefABCDEF': j += 1
            out.append(chr(int(s[i + 1:j], 16))); i = j; continue
        if e in '01234567':
            j = i
            while j < len(s) and j < i + 3 and s[j] in '01234567': j += 1
            out.append(chr(int(s[i:j], 8))); i = j; continue
        if e in simple: out.append(simple[e]); i += 1; continue
        raise AnalysisBroken(f'unsupported escape \\{e} in {lit!r}')
    return ''.join(out)


def const_value(n, enums):
    """python value of a constant initialiser expression"""
    n = strip(n)
    k = n.get('kind')
    if k == 'StringLiteral': return c_unescape(n['value'])
    if k == 'IntegerLiteral': return int(n['value'])
    if k == 'CharacterLiteral': return int(n['value'])
    if k == 'DeclRefExpr' and n['referencedDecl'].get('kind') == 'EnumConstantDecl': return enums[n['referencedDecl']['name']]
    if k == 'GNUNullExpr': return None
    if k == 'InitListExpr':
        return [const_value(c, enums) for c in n.get('inner', [])]
    if k == 'ImplicitValueInitExpr': return 0
    if k == 'UnaryOperator' and n['opcode'] == '-': return -const_value(n['inner'][0], enums)
    if k == 'BinaryOperator':
        a = const_value(n['inner'][0], enums); b = const_value(n['inner'][1], enums)
        return {'+': a + b, '-': a - b, '*': a * b, '|': a | b, '<<': a << b, '&': a & b}[n['opcode']]
    if k == 'UnaryExprOrTypeTraitExpr' and n.get('name') == 'sizeof':
        t = (n.get('argType') or {}).get('qualType') or (strip(n['inner'][0]).get('type', {}).get('qualType') if n.get('inner') else '') or ''
        m = re.fullmatch(r'(?:const )?(?:unsigned |signed )?char ?\[(\d+)\]', t)
        if m: return int(m.group(1))
        if t in ('char', 'unsigned char', 'signed char', 'const char'): return 1
    raise AnalysisBroken(f'unsupported constant initialiser {k}')


def is_null_ptr(n):
    """(void*)0 / NULL"""
    m = n
    while m.get('kind') in ('ImplicitCastExpr', 'ParenExpr', 'CStyleCastExpr'):
        if m.get('castKind') == 'NullToPointer': return True
        m = m['inner'][0]
    return False


def row_values(n, enums, keep_names=False):
    """one InitListExpr row -> list of python values; NULL pointers -> None; enumerators -> (name) if keep_names"""
    out = []
    for c in strip(n).get('inner', []):
        if is_null_ptr(c): out.append(None); continue
        s = strip(c)
        if keep_names and s.get('kind') == 'DeclRefExpr' and s['referencedDecl'].get('kind') == 'EnumConstantDecl':
            out.append(s['referencedDecl']['name'])
        else:
            out.append(const_value(c, enums))
    return out


def global_table(tu, name, keep_names=False):
    """rows of a file-scope (or function-static) array of structs"""
    v = tu.globals.get(name)
    if v is None:
        for f in tu.functions.values():
            for d in find(f, 'VarDecl'):
                if d.get('name') == name: v = d
    if v is None: raise AnalysisBroken(f'table {name} not found in {tu.unit.key}')
    init = [c for c in v.get('inner', []) if c.get('kind') == 'InitListExpr']
    if not init: raise AnalysisBroken(f'table {name} has no initialiser list')
    rows = []
    for r in init[0].get('inner', []):
        if strip(r).get('kind') == 'InitListExpr': rows.append(row_values(r, tu.enums, keep_names))
        elif is_null_ptr(r): rows.append(None)
        else: rows.append(const_value(r, tu.enums))
    return v, rows


def read_csv(path):
    """rows as Text::CSV (binary) would return them; header included"""
    with open(path, newline='', encoding='utf-8') as f:
        return list(csv.reader(f))


# ---- Perl generator parameters --------------------------------------------------------------
def perl_hash(text, name):
    m = re.search(r'my\s+%' + re.escape(name) + r'\s*=\s*\((.*?)\);', text, re.S)
    if not m: raise AnalysisBroken(f'%{name} not found in generator')
    body = re.sub(r'#.*', '', m.group(1))
    pairs = re.findall(r"'([^']*)'\s*=>\s*'([^']*)'", body)
    if not pairs: raise AnalysisBroken(f'%{name}: no pairs')
    d = {}
    for k, v in pairs: d[k] = v          # later duplicates win, as in Perl
    return d


def perl_string(lit):
    """value of a Perl double-quoted literal body (only the escapes the generators use)"""
    out = []; i = 0
    while i < len(lit):
        c = lit[i]
        if c == '\\':
            e = lit[i + 1]
            out.append({'n': '\n', 't': '\t', '"': '"', '\\': '\\'}.get(e, e)); i += 2
        else: out.append(c); i += 1
    return ''.join(out)
