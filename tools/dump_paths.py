import sys; sys.path.insert(0,'/verif/lib'); sys.path.insert(0,'/verif')
import unitdb, astutil, cfgpaths
rel, fn = sys.argv[1], sys.argv[2]
us = [u for u in unitdb.units() if u.rel == rel]
tu = unitdb.load_asts(us)[rel]
e, paths = cfgpaths.summarise(tu, fn)
print(len(paths), 'paths')
for p in paths:
    print(' | '.join(p.text()))
