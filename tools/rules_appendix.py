#!/usr/bin/env python3
"""Regenerates section 10 of DESIGN.md: the rules as implemented, read from the evidence files the checks wrote."""
import json, os, glob
V = os.path.dirname(os.path.dirname(os.path.abspath(__file__)))
out = ['## 10. Rules as implemented (generated from evidence/*.json)', '',
       'One line per rule: id, obligations found on the current tree (pinned minimum in brackets), text. A rule that matches fewer instances than its pin stops the check with exit 2.', '']
for p in sorted(glob.glob(os.path.join(V, 'evidence', 'C*.json'))):
    e = json.load(open(p)); c = e['coverage']
    out.append(f'### {e["property_id"]} - level {e["level"]}, {len(c.get("units", []))} units, {len(c.get("functions", []))} functions, {c.get("obligations")} obligations' + (f', {c.get("states")} configurations / {c.get("transitions")} transitions explored' if 'states' in c else ''))
    out.append('')
    for r in c.get('rules', []):
        out.append(f'* **{r["id"]}** - {r["instances"]} [{r["pinned_min"]}] - {r["text"]}')
    nd = c.get('not_decided') or []
    if nd: out.append(''); out.append('Not decided: ' + '; '.join(nd))
    if e.get('assumptions'): out.append(''); out.append('Assumptions: ' + '; '.join(e['assumptions']))
    out.append('')
text = '\n'.join(out) + '\n'
p = os.path.join(V, 'DESIGN.md'); s = open(p).read()
a, b = '<!-- rules:begin -->', '<!-- rules:end -->'
if a in s: s = s[:s.index(a) + len(a)] + '\n' + text + s[s.index(b):]
else: s = s.rstrip('\n') + '\n\n' + a + '\n' + text + b + '\n'
open(p, 'w').write(s)
print('ok')
