#!/usr/bin/env python3
"""Writes /verif/MANIFEST.json from the table below (kept in one place so it is always schema-valid)."""
import json, os, sys
HERE = os.path.dirname(os.path.dirname(os.path.abspath(__file__)))

CHECKS = {
 'C01': dict(level='other', technique='path summaries over the AST of every e-mail function and of eav_setup/eav_is_email in three backends; switch-arm wiring table; twin agreement of summaries',
             text='Decides the structural half of the statement on every path (all functions involved are loop-free, so the path sets are finite and complete): each EAV_RFC enumerator is wired to its own callback with a consistent utf8 flag, the dispatch passes (email, length, tld_check) unchanged, is_<m>_email calls is_<m>_local on [email, last @) after length != 0 / @ present / @ not last / <= 64 octets (evaluated at 64 and 65), the domain validator gets (@+1, email+length), the bracket branch is taken iff the first domain byte is [, rejected shapes carry their codes, and the four functions agree outside the local-part callee.',
             note='The per-part languages are decided by C02-C05, the TLD policy by C07-C09. Trusts clang-14 AST and lib/cfgpaths.py. idn/idnkit backends parsed against stub headers.',
             ref='DESIGN.md section 3 / C01'),
 'C02': dict(level='model_checking', technique='automaton extraction by abstract interpretation of the scanner source + exhaustive product exploration against a specification DFA',
             text='Language equality, for strings of every length over bytes 0x01-0xFF, between each of is_822_local / is_5321_local / is_5322_local (extracted from the current source as a finite transition system: integer locals concrete, pointers cursor-relative, bytes as classes that no comparison in code or spec can distinguish) and the mode\'s specification DFA written from the statement. The joint space is finite and explored completely, so there is no length bound.',
             note='Trusts clang-14 AST, the C-subset evaluator of lib/scanex.py (a construct outside the subset stops the check with exit 2), the spec DFAs in spec/localpart.py with their listed reading choices, ASCII-range ctype semantics = C locale. The witness strings are report artefacts; nothing is executed.',
             ref='DESIGN.md section 3 / C02, section 2.3'),
 'C03': dict(level='model_checking', technique='interval abstract interpretation of the UTF-8 decoder (case splitting, box subtraction against RFC 3629) + code-point-level automaton extraction of is_6531_local against the 5321 spec DFA',
             text='O3.1: the decoder\'s accept set, computed as a finite set of byte boxes by interval abstract interpretation of utf8_decode_next/get/cont, equals RFC 3629\'s well-formed table in both directions for 0-4 available bytes. O3.2: is_6531_local read through the decoder summary equals the 5321 specification automaton with one extra symbol for a well-formed non-ASCII character, for all lengths.',
             note='Trusts clang-14 AST, lib/decoder_ai.py and lib/scanex.py evaluators, spec/localpart.py. Assumes end - start <= INT_MAX. The one-symbol abstraction of non-ASCII characters is checked (no comparison with a constant above 0x7f in the scanner).',
             ref='DESIGN.md section 3 / C03, section 2.3 (6, 7)'),
 'C04': dict(level='model_checking', technique='prologue table over length cells + automaton extraction of the scan loop vs label-sequence DFA + exhaustive abstract evaluation of short strings; path rule for the IDN pipeline',
             text='is_ascii_domain is decided for every string: lengths 0-3 exhaustively over the byte classes (whole function evaluated abstractly), the length pre-checks for n >= 4 as a table over all cells cut by the constants the code compares the length with (253/254/255 rule and root-dot stripping), and the scanning loop as an extracted automaton compared with the label DFA (1-63 LDH, hyphen placement, single dots, not all-numeric) for the unstripped and stripped range, all lengths. The 6531 clause is a path rule: every backend feeds the converter output to is_ascii_domain and returns its failure unchanged.',
             note='Trusts clang-14 AST, lib/scanex.py, spec/domain.py. label_length saturation at 64 is justified by a verified usage pattern (++, = const, compare with const). Assumes the byte after the domain is NUL. The IDN converter itself is not analysed.',
             ref='DESIGN.md section 3 / C04'),
 'C12': dict(level='model_checking', technique='product exploration of the four extracted local-part automata (code agreement, language inclusion) + path-summary twin agreement of the e-mail functions',
             text='No specification is involved: the four scanners, extracted from the current source, are explored jointly on every ASCII string without DQUOTE/backslash (same return code required) and 5321 vs 822 on all bytes (inclusion); the three ASCII e-mail functions must have identical path summaries up to the local-part callee and is_6531_email (3 backends) must equal them outside the host-name branch, which makes domain verdict, class and flags mode-independent.',
             note='Trusts clang-14 AST, lib/scanex.py, lib/cfgpaths.py. The IDN exemption for mode 6531 is structural (C10).',
             ref='DESIGN.md section 3 / C12'),
 'C05': dict(level='model_checking', technique='must-pass-through path rules over every check_ip expansion + extracted automata of is_ipv4 and is_ipv6 sandwiched between RFC 5321 (must accept) and RFC 4291 (may accept) specification automata',
             text='R5.1-R5.3, R5.6 are decided on all paths of the six expansions of check_ip (nothing after the bracket, skipped bytes compared with IPv6:, family flag established by the validator or a colon test on the validated range, minimum length and reject codes). O5.5/O5.7: is_ipv4 and is_ipv6 are extracted from the source (strspn modelled lazily on the window) and explored jointly with lower- and upper-bound automata for strings of every length; the dotted-quad tail is handled compositionally (is_ipv6 must hand the tail, from the start of its first octet, to is_ipv4 exactly where the grammar has one; is_ipv4 is then bounded on its own).',
             note='Bracket context only (range ends at ], which every strspn set excludes); quads with a zero first octet are bounded from neither side by the statement. Trusts clang-14 AST, lib/scanex.py, spec/iplit.py.',
             ref='DESIGN.md section 3 / C05'),
 'C08': dict(level='other', technique='switch-arm table extraction + path summaries over the AST (3 backends)',
             text='Complete for the statement: every class has exactly one arm testing exactly its own single-bit constant, the switch is reached only for rc > 0, and the tld_check gate precedes every TLD-related call; decided on all paths of eav_is_email/eav_init in all three backends and of the six gate sites. The 2^11 masks collapse to 9 single-bit tests, so no enumeration of inputs is needed.',
             note='Trusts clang-14 AST, Engine A path enumeration (lib/cfgpaths.py). Not decided here: that the class handed to the switch is the right one (C07/C09). idn and idnkit backends are parsed against declaration-only stub headers.',
             ref='DESIGN.md section 3 / C08'),
 'C11': dict(level='translation_validation', technique='translation validation: compiled table (AST initialisers) == generator rules (read from the Perl source) applied to the CSV, all rows',
             text='All 1591 rows of tld_list as clang evaluates them, the header, auto_tld.c text and tld-domains.txt are compared with the output of the generators\' rules, whose parameters (type map, manager overrides, formats) are read from util/*.pl on every run; raw.csv and punycode.csv are cross-checked row by row via RFC 3492 encoding.',
             note='Perl generators cannot be executed here (Text::CSV missing); their rules are re-evaluated from parameters extracted from the Perl text, and an unrecognised generator edit stops the check with exit 2. Python csv is assumed to read the shipped files as Text::CSV does.',
             ref='DESIGN.md section 3 / C11'),
 'C13': dict(level='other', technique='field-sensitive incoming-read / write analysis over all paths of the eav_t entry points (3 backends), static callee inlined',
             text='The history quantifier is reduced to per-call facts decided on every path: eav_is_email reads of the incoming object only inputs, fields derived by the last successful eav_setup and backend context; errcode, idnmsg and result are overwritten (or known NULL) on every path and their old values feed only their own release; eav_setup assigns constants of the arm on success and leaves the derived fields alone on failure; eav_free releases and nulls; eav_init assigns every field any entry point reads. With C14 (no shared mutable state) no earlier call can influence a later one, for histories of any length.',
             note='Heap-level exactly-once is argued from path pairing plus the single storage location of the result pointer. Trusts clang-14 AST and lib/cfgpaths.py.',
             ref='DESIGN.md section 3 / C13'),
 'C15': dict(level='other', technique='message-table rules + path rules on eav_is_email/eav_setup/eav_errstr (3 backends) + monitor automata in the product with the extracted scanners',
             text='errors[] has one message per code and message i names condition i (keyword table from the enumerator names); every validator return is a describable code; on every path return 1 iff errcode NO_ERROR, errcode = -rc, idnmsg = backend strerror(result->idn_rc) iff IDN error; eav_setup leaves the code it returns; per-input truth: whenever an extracted scanner returns code E on any string of any length, the fact E names holds (joint exploration with monitor automata; early returns are checked against every extension).',
             note='Thorough tier runs the truthfulness monitors also on is_6531_local built with RFC6531_FOLLOW_RFC5322 / RFC20 (and both) and on is_ascii_domain built with LABELS_ALLOW_UNDERSCORE (M15.1[options]). Monitors state necessary conditions of each code (e.g. TOO_MANY_DOTS => ".." occurs); "a local-part error only if the local part is invalid" is C02/C03 in the reject direction. The IDN library message table is not analysed.',
             ref='DESIGN.md section 3 / C15'),
 'C16': dict(level='other', technique='path summaries of the six e-mail functions, default and -DEAV_EXTRA variants; family establishment rule shared with C05',
             text='On every path of is_822/5321/5322_email and is_6531_email (3 backends), with and without EAV_EXTRA: flags cleared first, at most one set, set exactly when both validators succeeded and matching the branch/family established on the path, none set after a failure; rc is 0, a class (only with tld_check) or a negative code; EAV_EXTRA strings are NULL-initialised, duplicated only on success with the exact pointer differences for the two halves, and released with the record by eav_result_free.',
             note='Syntactic validity of each half is what the per-part validators report (their languages: C02-C05). Trusts clang-14 AST and lib/cfgpaths.py.',
             ref='DESIGN.md section 3 / C16'),
 'C19': dict(level='other', technique='failure-edge path rules on is_utf8_domain / is_6531_email / eav_is_email in three backends',
             text='Every possible library return code other than the success constant takes one CFG edge; on that edge the function returns -EEAV_IDN_ERROR with *r holding the code, calls none of the domain checks, and releases the output buffer iff non-NULL exactly once (all paths: NULL-initialised, no use after free); callers set is_domain only for rc >= 0 and take the message from result->idn_rc with the backend strerror; the next call resets it (C13).',
             note='What the IDN library itself allocates or leaks is outside the repository. Trusts clang-14 AST and lib/cfgpaths.py; idn/idnkit parsed against stubs.',
             ref='DESIGN.md section 3 / C19'),
 'C07': dict(level='other', technique='table invariants over all rows + lookup-shape rule + call-sequence path rules on three check_tld expansions and three is_utf8_domain copies',
             text='Necessary structural conditions, each mapping to a mis-classification when broken: every row has length = strlen + 1 (whole-label match), lower-case LDH unique domain and an assignable class; is_tld is a first-match scan with strncasecmp over row.length returning row.type; every caller tests reserved domains first, takes the bytes after the LAST dot (strrchr), reports NOT_FQDN when there is none and hands the is_tld result on unchanged; in mode 6531 all of that runs on the converter output.',
             note='The table content is tied to the shipped CSV by C11. Assumes the domain ends at the terminator. Does not decide the IDN library output (C10).',
             ref='DESIGN.md section 3 / C07'),
 'C09': dict(level='other', technique='table rules + path rules on is_special_domain: which label each verdict rests on (def-use from the last-label pointer), soundness of every length short-cut for the table it guards, navigation-loop shape evaluated at its boundary values',
             text='Structural part only (the function navigates with strchr, outside the scanner subset): reserved[]/example[] contents and lengths; dot counting, root-dot discount and skip loop (continue at 2, stop at 1); on every one of ~2200 paths a NO verdict for a multi-label domain must rest on the last label (compared with reserved[] or left through a short-cut that admits no reserved length) and a YES verdict must follow a whole-label match of the right label against the right table.',
             note='Not decided: the full label-sequence language. Buffer bounds are C06.',
             ref='DESIGN.md section 3 / C09'),
 'C10': dict(level='other', technique='pipeline-trace equality between the ASCII host-name branch and is_utf8_domain after conversion (3 backends)',
             text='Only the repository\'s side: after a successful conversion every backend applies to the converter output the same calls in the same order with the same verdict mapping as the ASCII modes apply to their input, and adds only DOMAIN_EMPTY / IDN_ERROR. The behavioural core - that the IDN library maps U-label and A-label spellings to the same A-label and rejects IDNA2008 violations - is a fact about the library binary and is NOT decided by anything in /verif.',
             note='Carried as assumptions: converter idempotent on LDH ASCII; U- and A-label of a valid domain convert to the same A-label.',
             ref='DESIGN.md section 3 / C10'),
 'C14': dict(level='other', technique='LLVM-IR effect facts: global definitions and mutability, base object of every store and callee write, external callee allow-list',
             text='With no mutable global, static or thread-local object defined in any library unit (all three backends), every store and every write made through a callee landing in a local, in the function\'s own allocation or behind a non-const pointer parameter, and only re-entrant externals called, two threads using their own eav_t / result / decoder objects touch disjoint memory: there is nothing to race on under any schedule.',
             note='Thorough tier repeats all facts for the all-options-on build and the -DEAV_EXTRA build (code that exists only under an option). Thread-safety of libc and the IDN libraries is assumed as documented. Flow-insensitive base-object resolution over -O0 IR; an unattributable store is reported, not ignored.',
             ref='DESIGN.md section 3 / C14'),
 'C06': dict(level='other', technique='bundle of enumerate-and-justify rules: scanner memory safety and progress by exhaustive automaton exploration with out-of-range reads as violations; pointer-provenance def-use on every path of the non-scanner code; buffer-bound guards; abort-site, allocation-pairing, loop and store-target rules',
             text='Not a proof of absence of all undefined behaviour. Every dangerous construct of each kind is enumerated from the current source and must be justified by a recognised guard: (R6.2s) for all seven scanners, on every input of every length, no read before the first byte or past the terminator and every iteration advances (Engine B, exhaustive); (R6.2p) every pointer given to a NUL-scanning libc function, to the library\'s own validators, copied from or dereferenced with an offset derives from the input within [first byte, terminator] on every path; (R6.3) every write into a local array is bounded below its size; (R6.1) no eav_t field read before eav_init wrote it; (R6.6) abort sites are exactly the known unreachable ones; (R6.7) records and converter buffers are paired; (R6.8) loops progress without hidden quadratic libc calls; (R14.x) stores stay in caller-owned or local memory.',
             note='Thorough tier additionally explores is_6531_local and is_ascii_domain as compiled under all 7 non-default combinations of the three make options (R6.2s[options], 28 explorations). One frozen invariant is used and named in the evidence: in is_special_domain a strchr(_, ".") result used without NULL test is justified by the counting loop (C09 R9.4). Not decided: signed overflow for inputs above 2^31 bytes, anything inside libc / the IDN library; linear time is argued from one-pass progress, not measured.',
             ref='DESIGN.md section 3 / C06'),
 'C17': dict(level='model_checking', technique='make dry-run diffs over all 8 option combinations + preprocessor identity of every other unit + automata extracted under the options compared with option-specific specifications / sibling scanners',
             text='R17.1: OPTION=ON adds exactly -DOPTION. R17.2: every unit except the documented one preprocesses byte-identically under all 8 combinations and the macros occur nowhere else, which proves that every other decision is unchanged without looking at any input. O17.3: under RFC20 the 6531 scanner equals the 5321+UTF-8 specification minus the seven RFC 20 graphics outside quotes; under RFC5322 it agrees with the extracted is_5322_local on every pure-ASCII string (both with the other option at both values); under UNDERSCORE is_ascii_domain satisfies the C04 rules with _ as a letter.',
             note='Trusts clang-14 preprocessor/AST and lib/scanex.py. Options are passed as OPTION=ON on the make command line.',
             ref='DESIGN.md section 3 / C17'),
 'C18': dict(level='other', technique='sibling path-summary agreement of the three backend source sets (two parsed against stub headers) + explicit exploration of the resource typestate over all call histories + Makefile backend selection',
             text='Repository side only: eav_init/eav_setup/eav_is_email/eav_free/is_6531_email/is_utf8_domain of the three backends agree under the backend vocabulary; the abstract object state (initialized flag, resolver live) is explored over every history init.(setup|is_email)*.free with the path summaries as transitions: create only when absent, destroy only when present, flag equals truth, nothing left after eav_free; FORCE_IDN selects exactly one source set with its -DHAVE flag.',
             note='libidn and idnkit are not installed: their source sets are parsed, never compiled. Equivalence of the libraries\' conversions is the statement\'s own hypothesis.',
             ref='DESIGN.md section 3 / C18'),
 'C20': dict(level='other', technique='path rules over every loop iteration of parse_file and over sanitize_utf8/main (guards of offset reads and echo-buffer writes against a pointer/capacity model, abort reachability, verdict-per-line structure, trimming order, getline contract); interval abstract interpretation of the tool\'s own UTF-8 decoder; loop-invariant check of the echo loop (symbolic linear offsets, one iteration per head state x decoder outcome)',
             text='Robustness: the len - 1 access is dominated by len > 0; the echo buffer is a static pointer/capacity pair assigned only together from a successful realloc of the stored size, and every copy into it and index of it is dominated by a guard on the same position, length and capacity (escape width 4 only for c in 0..255, 10 otherwise); no abort/assert is reachable from main; the variables handed to getline are written by nothing else. Verdict structure: each of the ~240 iteration paths prints exactly one PASS/FAIL unless the line is a comment, on eav_is_email(eav, view, strlen(view)) for the trimmed view, followed by the echo of that view, FAIL followed by eav_errstr; main keeps eav_init defaults and calls eav_setup once; trimming order as stated. Echo clause: the tool\'s decoder accepts exactly RFC 3629 and reports character offsets (R20.5); on a clean line every iteration of sanitize_utf8 copies text[frontier, next offset) to the same offset of the buffer, no escape or truncation exit is reachable, every exit leaves the buffer equal to the line (R20.6, induction over the loop).',
             note='getline/stdio behaviour assumed; allocation of the echo buffer assumed to succeed for the echo clause. What is printed for lines that are not clean (escapes, truncation of ill-formed lines) is decided only as far as memory safety. sanitize() in bin/main.h is unreachable from main (used by tests only).',
             ref='DESIGN.md section 3 / C20'),
}

NOT_YET = {}

def main():
    props = [json.loads(l) for l in open(os.path.join(HERE, 'properties.jsonl'))]
    na_path = os.path.join(HERE, 'tools', 'not_applicable.json')
    na = json.load(open(na_path)) if os.path.exists(na_path) else {}
    checks = []
    for p in props:
        pid = p['id']
        if pid not in CHECKS: continue
        c = CHECKS[pid]
        checks.append({
            'property_id': pid,
            'quick_cmd': f'./check {pid} --tier quick',
            'thorough_cmd': f'./check {pid} --tier thorough',
            'evidence_file': f'/verif/evidence/{pid}.json',
            'replay_cmd_template': f'./check {pid} --replay {{path}}',
            'engine': 'libeav-static',
            'level_claimed': {'category': c['level'], 'text': c['text'], 'design_ref': c['ref']},
            'level_note': c['note'],
            'technique': c['technique'],
        })
    m = {
        'version': 1,
        'setup_cmd': 'python3 -m compileall -q lib rules spec tools selftest && ./check --help >/dev/null',
        'hooks': {'guard': 'GH0STWIZARD_LIBEAV_VERIF', 'enable': 'none needed: the analysers read the unmodified sources (no hooks committed)',
                  'baseline_off_cmd': 'make -C /repo clean all check', 'source_commits': [], 'add_only': True},
        'engines': [{'name': 'libeav-static', 'path': '/verif/check', 'serves_properties': [c['property_id'] for c in checks],
                     'kind_free_text': 'repository-specific static analysers in Python over clang-14 JSON AST dumps, -O0 LLVM IR, make -n and the data tables: path summaries (lib/cfgpaths.py), scanner-automaton extraction and product reachability (lib/scanex.py), IR effect facts (lib/irfacts.py), table rules (lib/tables.py)'}],
        'checks': checks,
        'not_applicable': [{'property_id': p['id'], 'reason': na.get(p['id'], 'check not built yet in this session (claimed in DESIGN.md; will be registered when its rules exist)')}
                           for p in props if p['id'] not in CHECKS],
        'notes': 'Exit codes: 0 held, 1 VIOLATION line(s), 2 ANALYSIS-BROKEN (anchor vanished / unsupported construct). known_findings.json lists genuine defects that are recorded rather than repaired. selftest/run.py tests every rule against one-instance mutants of a scratch copy.',
    }
    with open(os.path.join(HERE, 'MANIFEST.json'), 'w') as f:
        json.dump(m, f, indent=1); f.write('\n')
    print(f'{len(checks)} checks, {len(m["not_applicable"])} not claimed')

main()
