#!/usr/bin/env python3
"""tools/try_refactor.py <ID> <worktree> [--recheck] [--what "..."]

The false-alarm direction of tools/try_seed.py: a BEHAVIOUR-PRESERVING refactoring written by an independent sub-agent
(it saw neither /verif nor the properties; it had to show zero differences against the original with its own
differential test).  Confirms it (suite passes on the changed tree, the agent's differential test passes), applies the
patch to /repo, runs every registered check, restores /repo, and stores patch + notes + meta.json under
/verif/refactors/<ID>/.  Expected of every check: exit 0 (quiet) or exit 2 (an idiom the check does not model: it stops
and names the construct).  Exit 1 is a false alarm and has to be corrected in the machinery."""
import json, os, shutil, subprocess, sys, argparse, re
VERIF = os.path.dirname(os.path.dirname(os.path.abspath(__file__)))


def sh(cmd, cwd=None, timeout=3600):
    p = subprocess.run(cmd, shell=True, cwd=cwd, capture_output=True, text=True, errors='replace', timeout=timeout)
    return p.returncode, (p.stdout + p.stderr)


def main():
    ap = argparse.ArgumentParser(); ap.add_argument('rid'); ap.add_argument('wt'); ap.add_argument('--recheck', action='store_true'); ap.add_argument('--what'); ap.add_argument('--props')
    a = ap.parse_args()
    dst = os.path.join(VERIF, 'refactors', a.rid)
    src = dst if a.recheck else os.path.join(a.wt, 'SEED')
    if not os.path.exists(os.path.join(src, 'patch.diff')): sys.exit('no patch.diff')
    log = {}; suite_ok = difftest = None
    if not a.recheck:
        sh('git checkout -- . ; git apply SEED/patch.diff', cwd=a.wt)
        rc, out = sh(f'python3 {VERIF}/tools/baseline.py {a.wt}')
        suite_ok = rc == 0; log['suite'] = out.strip().splitlines()[-1] if out.strip() else ''
        sh('make clean >/dev/null 2>&1; make >/dev/null 2>&1', cwd=a.wt)
        rc, out = sh('bash SEED/run.sh', cwd=a.wt, timeout=3600)
        difftest = rc; log['diff_test_tail'] = out[-500:]
        print(f'suite_ok={suite_ok} differential_test_rc={difftest}')
    st, o = sh('git -C /repo status --porcelain --untracked-files=no')
    if o.strip(): sys.exit('/repo is not clean')
    rc, out = sh(f'git -C /repo apply {src}/patch.diff')
    if rc != 0: sys.exit('patch does not apply to /repo: ' + out)
    res = {}
    try:
        m = json.load(open(os.path.join(VERIF, 'MANIFEST.json')))
        props = a.props.split(',') if a.props else [c['property_id'] for c in m['checks']]
        env = dict(os.environ, VERIF_EVIDENCE_DIR='/tmp/ref-ev', VERIF_OUT='/tmp/ref-out')
        for pid in props:
            p = subprocess.run([os.path.join(VERIF, 'check'), pid], capture_output=True, text=True, env=env)
            if p.returncode != 0:
                res[pid] = {'exit': p.returncode, 'rules': sorted(set(re.findall(r'violation: rule=(\S+)', p.stdout))),
                            'first': next((l.strip()[:400] for l in p.stdout.splitlines() if 'violation:' in l or 'ANALYSIS-BROKEN' in l), '')}
    finally:
        sh('git -C /repo checkout -- .')
        shutil.rmtree('/tmp/ref-ev', ignore_errors=True); shutil.rmtree('/tmp/ref-out', ignore_errors=True)
    alarms = {k: v for k, v in res.items() if v['exit'] == 1}
    stops = {k: v for k, v in res.items() if v['exit'] == 2}
    for k, v in res.items(): print(f'  {k}: exit {v["exit"]} {v["rules"]} {v["first"][:220]}')
    print('FALSE ALARMS: ' + ', '.join(alarms) if alarms else ('quiet' + (f' (stopped: {", ".join(stops)})' if stops else '')))
    os.makedirs(dst, exist_ok=True)
    if not a.recheck:
        for f in os.listdir(src):
            fp = os.path.join(src, f)
            if os.path.isfile(fp) and os.path.getsize(fp) < 200000 and '.' in f and not f.endswith(('.o', '.bin', '.a', '.so')): shutil.copy(fp, dst)
    mp = os.path.join(dst, 'meta.json')
    meta = json.load(open(mp)) if os.path.exists(mp) else {}
    if a.what: meta['what'] = a.what
    meta.update({'id': a.rid, 'kind': 'behaviour-preserving refactoring (must not raise an alarm)', 'checks_not_quiet': res,
                 'false_alarms': sorted(alarms), 'stopped': sorted(stops)})
    if not a.recheck: meta.update({'suite_still_passes': suite_ok, 'differential_test_exit': difftest, 'log': log})
    json.dump(meta, open(mp, 'w'), indent=1)
    print('stored in', dst)

main()
