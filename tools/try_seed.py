#!/usr/bin/env python3
"""tools/try_seed.py <SEED-ID> <worktree> [--props C01,C05] [--name short-name]

Confirms a seeded change produced by an independent sub-agent and runs the checks against it.
 1. in the agent's worktree: the change is applied and built; `make clean all check` still passes (all 114 baseline
    names); SEED/run.sh fails with the change and passes without it (git stash / pop, rebuilt each time);
 2. the patch is applied to /repo (git apply), every registered check (or --props) is run, /repo is restored;
 3. patch, demonstration, notes and meta.json (what it breaks, what it needs, what was run, which checks fired)
    are stored under /verif/seeded/<SEED-ID>/.
Nothing of this is a registered check; it is how the checks are tested against changes we did not write."""
import json, os, shutil, subprocess, sys, argparse, re
VERIF = os.path.dirname(os.path.dirname(os.path.abspath(__file__)))


def sh(cmd, cwd=None, timeout=1800):
    p = subprocess.run(cmd, shell=True, cwd=cwd, capture_output=True, text=True, errors='replace', timeout=timeout)
    return p.returncode, (p.stdout + p.stderr)


def main():
    ap = argparse.ArgumentParser(); ap.add_argument('sid'); ap.add_argument('wt'); ap.add_argument('--props'); ap.add_argument('--skip-demo', action='store_true'); ap.add_argument('--recheck', action='store_true', help='only re-run the checks against seeded/<id>/patch.diff')
    ap.add_argument('--property'); ap.add_argument('--change'); ap.add_argument('--needs'); ap.add_argument('--tier', choices=('quick', 'thorough'), default='quick'); ap.add_argument('--copy', action='store_true', help='run the checks in parallel against a scratch copy of /repo HEAD with the patch applied (VERIF_REPO) instead of patching /repo itself')
    a = ap.parse_args()
    wt = a.wt; seed = os.path.join(wt, 'SEED')
    log = {}
    if a.recheck: seed = os.path.join(VERIF, 'seeded', a.sid)
    if not os.path.exists(os.path.join(seed, 'patch.diff')): sys.exit('no patch.diff')
    # 1. confirm
    suite_ok = True; demo_changed = demo_orig = None
    if not a.recheck:
        sh('git checkout -- . ; git apply SEED/patch.diff', cwd=wt)
        rc, out = sh(f'python3 {VERIF}/tools/baseline.py {wt}')
        log['suite_with_change'] = out.strip().splitlines()[0] if out.strip() else ''
        suite_ok = rc == 0
    if not a.skip_demo and not a.recheck:
        # switch trees with the patch itself (git stash is shared between worktrees of one repository)
        sh('git checkout -- . ; git apply SEED/patch.diff', cwd=wt)
        sh('make clean >/dev/null 2>&1; make >/dev/null 2>&1', cwd=wt)
        rc1, o1 = sh('bash SEED/run.sh', cwd=wt, timeout=900)
        demo_changed = rc1; log['demo_changed_tail'] = o1[-600:]
        sh('git apply -R SEED/patch.diff', cwd=wt)
        sh('make clean >/dev/null 2>&1; make >/dev/null 2>&1', cwd=wt)
        rc0, o0 = sh('bash SEED/run.sh', cwd=wt, timeout=900)
        demo_orig = rc0; log['demo_original_tail'] = o0[-400:]
        sh('git apply SEED/patch.diff', cwd=wt)
        sh('make clean >/dev/null 2>&1; make >/dev/null 2>&1', cwd=wt)
    confirmed = suite_ok and (a.skip_demo or (demo_changed != 0 and demo_orig == 0))
    print(f'suite_ok={suite_ok} demo_changed_rc={demo_changed} demo_original_rc={demo_orig} confirmed={confirmed}')
    # 2. checks
    fired = {}
    m = json.load(open(os.path.join(VERIF, 'MANIFEST.json')))
    props = a.props.split(',') if a.props else [c['property_id'] for c in m['checks']]
    def run_check(pid, env):
        p = subprocess.run([os.path.join(VERIF, 'check'), pid, '--tier', a.tier], capture_output=True, text=True, env=env)
        rules = sorted(set(re.findall(r'violation: rule=(\S+)', p.stdout)))
        if p.returncode != 0: fired[pid] = {'exit': p.returncode, 'rules': rules, 'first': next((l.strip()[:300] for l in p.stdout.splitlines() if 'violation:' in l or 'ANALYSIS-BROKEN' in l), '')}
    if a.copy:
        import tempfile, concurrent.futures
        tmp = tempfile.mkdtemp(prefix='seedcopy-'); cp = os.path.join(tmp, 'repo'); os.makedirs(cp)
        try:
            rc, out = sh(f'git -C /repo archive HEAD | tar -x -C {cp} && cd {cp} && patch -p1 -s -i {seed}/patch.diff')
            if rc != 0: sys.exit('patch does not apply to the copy: ' + out)
            with concurrent.futures.ThreadPoolExecutor(10) as ex:
                list(ex.map(lambda pid: run_check(pid, dict(os.environ, VERIF_REPO=cp, VERIF_EVIDENCE_DIR=os.path.join(tmp, 'ev-' + pid), VERIF_OUT=os.path.join(tmp, 'out-' + pid))), props))
            fired = dict(sorted(fired.items()))
        finally:
            shutil.rmtree(tmp, ignore_errors=True)
    else:
        st, _ = sh('git -C /repo status --porcelain --untracked-files=no')
        if _.strip(): sys.exit('/repo is not clean')
        rc, out = sh(f'git -C /repo apply {seed}/patch.diff')
        if rc != 0: sys.exit('patch does not apply to /repo: ' + out)
        try:
            env = dict(os.environ, VERIF_EVIDENCE_DIR='/tmp/seed-ev', VERIF_OUT='/tmp/seed-out')
            for pid in props: run_check(pid, env)
        finally:
            sh('git -C /repo checkout -- .')
            shutil.rmtree('/tmp/seed-ev', ignore_errors=True); shutil.rmtree('/tmp/seed-out', ignore_errors=True)
    for pid, f in fired.items(): print(f'  {pid}: exit {f["exit"]} {f["rules"]} {f["first"][:200]}')
    if not fired: print('  NO CHECK FIRED')
    # 3. store
    dst = os.path.join(VERIF, 'seeded', a.sid); os.makedirs(dst, exist_ok=True)
    for f in ([] if a.recheck else os.listdir(seed)):
        if os.path.isfile(os.path.join(seed, f)) and os.path.getsize(os.path.join(seed, f)) < 200000 and not f.endswith(('.o', '.bin')) and '.' in f: shutil.copy(os.path.join(seed, f), dst)
    meta_path = os.path.join(dst, 'meta.json')
    meta = json.load(open(meta_path)) if os.path.exists(meta_path) else {}
    for k in ('property', 'change', 'needs'):
        if getattr(a, k): meta[k] = getattr(a, k)
    if a.tier != 'quick': meta['tier'] = a.tier
    if a.recheck:
        meta['checks_fired'] = fired
        json.dump(meta, open(meta_path, 'w'), indent=1); print('rechecked', dst); return
    meta.update({'seed_id': a.sid, 'confirmed': confirmed, 'suite_still_passes': suite_ok, 'demo_exit_changed_tree': demo_changed, 'demo_exit_original_tree': demo_orig,
                 'ran': ['tools/baseline.py <worktree> (make clean all check, 114 baseline names)', 'SEED/run.sh on the changed and on the original tree (git stash), rebuilt each time',
                         ('scratch copy of /repo HEAD + patch.diff as VERIF_REPO; ./check <every property>' if a.copy else 'git -C /repo apply patch.diff; ./check <every property>; git -C /repo checkout -- .')],
                 'checks_fired': fired, 'log': log})
    json.dump(meta, open(meta_path, 'w'), indent=1)
    print('stored in', dst)

main()
