#!/usr/bin/env python3
"""Runs the repository's own suite (make clean all check) and compares the set of passing test names with
/root/.vp/BASELINE.json (stable_pass).  Used after every change to /repo; not a registered check."""
import json, re, subprocess, sys
repo = sys.argv[1] if len(sys.argv) > 1 else '/repo'
base = json.load(open('/root/.vp/BASELINE.json'))
p = subprocess.run(['make', '-C', repo, 'clean', 'all', 'check'], capture_output=True)
out = p.stdout.decode('utf-8', 'replace') + p.stderr.decode('utf-8', 'replace')
passed = set()
for line in out.splitlines():
    m = re.match(r'^PASS: (.*)$', line)
    if m: passed.add(m.group(1))
    m = re.match(r'^(\./\S+\.bin): PASS$', line)
    if m: passed.add(m.group(1))
want = set(base['stable_pass'])
missing = sorted(want - passed)
print(f'make exit {p.returncode}; {len(passed)} passing names, baseline {len(want)}, missing {len(missing)}')
for m in missing[:20]: print('  MISSING', m)
if p.returncode != 0: print(out[-2000:])
sys.exit(0 if (p.returncode == 0 and not missing) else 1)
