/* Declaration-only stand-in for idnkit-2's <idn/api.h>, transcribed from its public
 * documentation, so that the files under partial/idnkit can be PARSED (never compiled or linked) here.
 * idnkit is not installed in this sandbox. */
#ifndef VERIF_STUB_IDN_API_H
#define VERIF_STUB_IDN_API_H
#include <stddef.h>
typedef enum {
    idn_success = 0,
    idn_notfound,
    idn_invalid_encoding,
    idn_invalid_syntax,
    idn_invalid_name,
    idn_invalid_message,
    idn_invalid_action,
    idn_invalid_codepoint,
    idn_invalid_length,
    idn_buffer_overflow,
    idn_noentry,
    idn_nomemory,
    idn_nofile,
    idn_nomapping,
    idn_context_required,
    idn_prohibited,
    idn_failure
} idn_result_t;
typedef struct idn_resconf *idn_resconf_t;
typedef unsigned long idn_action_t;
#define IDN_ENCODE_REGIST 0x00001fffUL
#define IDN_ENCODE_LOOKUP 0x00000fffUL
extern idn_result_t idn_resconf_initialize (void);
extern idn_result_t idn_resconf_create (idn_resconf_t *ctxp);
extern void idn_resconf_destroy (idn_resconf_t ctx);
extern idn_result_t idn_res_encodename (idn_resconf_t ctx, idn_action_t actions,
                                        const char *from, char *to, size_t tolen);
extern const char *idn_result_tostring (idn_result_t result);
#endif
