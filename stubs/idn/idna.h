/* Declaration-only stand-in for GNU libidn's <idna.h>, transcribed from its public
 * documentation, so that the files under partial/idn can be PARSED (never compiled or linked) here.
 * libidn is not installed in this sandbox. */
#ifndef VERIF_STUB_IDNA_H
#define VERIF_STUB_IDNA_H
typedef enum {
    IDNA_SUCCESS = 0,
    IDNA_STRINGPREP_ERROR = 1,
    IDNA_PUNYCODE_ERROR = 2,
    IDNA_CONTAINS_NON_LDH = 3,
    IDNA_CONTAINS_MINUS = 4,
    IDNA_INVALID_LENGTH = 5,
    IDNA_NO_ACE_PREFIX = 6,
    IDNA_ROUNDTRIP_VERIFY_ERROR = 7,
    IDNA_CONTAINS_ACE_PREFIX = 8,
    IDNA_ICONV_ERROR = 9,
    IDNA_MALLOC_ERROR = 201,
    IDNA_DLOPEN_ERROR = 202
} Idna_rc;
extern const char *idna_strerror (Idna_rc rc);
extern int idna_to_ascii_lz (const char *input, char **output, int flags);
extern int idna_to_ascii_8z (const char *input, char **output, int flags);
#endif
