#!/usr/bin/env python3
"""Self-test of the checks, both directions.

  selftest/run.py [--only ID-or-mutant-prefix] [-j N]

For every mutant in selftest/mutants.json: copy /repo to a scratch directory, apply the one-instance edit
(find -> replace, must match exactly once), run `./check <property>` against the copy (VERIF_REPO), and require
exit status 1 with the expected rule id in a `violation:` line.  Mutants marked "expect": "quiet" must leave the
check at exit 0 (behaviour-preserving edits: the false-alarm direction).  The scratch copy is removed afterwards.
This is how the checks are tested; it is not itself a registered check."""
import json, os, shutil, subprocess, sys, tempfile, argparse
from concurrent.futures import ThreadPoolExecutor
HERE = os.path.dirname(os.path.abspath(__file__)); VERIF = os.path.dirname(HERE)
REPO = os.environ.get('VERIF_REPO', '/repo')


def run_one(m):
    tmp = tempfile.mkdtemp(prefix='verif-mut.')
    try:
        dst = os.path.join(tmp, 'repo')
        def ign(d, names):
            return [n for n in names if n == '.git' or n.endswith(('.o', '.so', '.a', '.bin')) or (n == 'eav' and os.path.isfile(os.path.join(d, n)))]
        shutil.copytree(REPO, dst, ignore=ign)
        if m.get('patch'):
            r = subprocess.run(['patch', '-p1', '-s', '-i', m['patch']], cwd=dst, capture_output=True, text=True)
            if r.returncode != 0: return m, 'STALE', 'patch does not apply: ' + (r.stdout + r.stderr)[-300:]
        for ed in ([] if m.get('patch') else m.get('edits', [m])):
            path = os.path.join(dst, ed['file'])
            text = open(path, encoding='utf-8').read()
            n = text.count(ed['find'])
            if n != ed.get('count', 1):
                return m, 'STALE', f'{ed["file"]}: pattern occurs {n}x (want {ed.get("count", 1)})'
            text = text.replace(ed['find'], ed['replace'])
            open(path, 'w', encoding='utf-8').write(text)
        env = dict(os.environ, VERIF_REPO=dst, VERIF_EVIDENCE_DIR=os.path.join(tmp, 'ev'), VERIF_OUT=os.path.join(tmp, 'out'))
        props = m['property'] if isinstance(m['property'], list) else [m['property']]
        notes = []
        okall = True
        for pid in props:
            p = subprocess.run([os.path.join(VERIF, 'check'), pid] + (['--tier', m['tier']] if m.get('tier') else []),
                               capture_output=True, text=True, env=env)
            out = p.stdout + p.stderr
            if m.get('expect') == 'quiet':
                ok = p.returncode == 0
                notes.append(f'{pid}: exit {p.returncode}')
            elif m.get('expect') == 'no-alarm':
                # a behaviour-preserving refactoring: quiet, or stopped on an idiom the check does not model - never a VIOLATION
                ok = p.returncode in (0, 2) and 'VIOLATION' not in out
                notes.append(f'{pid}: exit {p.returncode}' + ('' if ok else '\n' + out[-1200:]))
            else:
                fired = [l for l in out.splitlines() if l.strip().startswith('violation:') and ('rule=' + m['expect_rule']) in l]
                ok = p.returncode == 1 and bool(fired)
                notes.append(f'{pid}: exit {p.returncode}, {len(fired)} matching report(s)' + ('' if ok else '\n' + out[-1500:]))
            okall = okall and ok
        return m, 'PASS' if okall else 'FAIL', '; '.join(notes)
    finally:
        shutil.rmtree(tmp, ignore_errors=True)


def main():
    ap = argparse.ArgumentParser(); ap.add_argument('--only'); ap.add_argument('-j', type=int, default=8)
    a = ap.parse_args()
    ms = json.load(open(os.path.join(HERE, 'mutants.json')))['mutants']
    # changes written by independent sub-agents (seeded/<id>/): each must still be caught by the checks recorded for it
    import glob
    for mp in sorted(glob.glob(os.path.join(VERIF, 'seeded', '*', 'meta.json'))):
        meta = json.load(open(mp))
        for pid, f in sorted(meta.get('checks_fired', {}).items()):
            if f.get('exit') != 1 or not f.get('rules'): continue
            ms.append(dict({'id': f'{meta["seed_id"]}:{pid}', 'property': pid, 'expect_rule': f['rules'][0], 'patch': os.path.join(os.path.dirname(mp), 'patch.diff'),
                       'note': 'seeded: ' + meta.get('change', '')[:90]}, **({'tier': meta['tier']} if meta.get('tier') else {})))
    # behaviour-preserving refactorings written by independent sub-agents (refactors/<id>/): no check may raise an alarm
    allp = [c['property_id'] for c in json.load(open(os.path.join(VERIF, 'MANIFEST.json')))['checks']]
    for mp in sorted(glob.glob(os.path.join(VERIF, 'refactors', '*', 'meta.json'))):
        meta = json.load(open(mp))
        for pid in allp:
            ms.append({'id': f'{meta["id"]}:{pid}', 'property': pid, 'expect': 'no-alarm', 'patch': os.path.join(os.path.dirname(mp), 'patch.diff'),
                       'note': 'refactoring: ' + meta.get('what', '')[:90]})
    if a.only:
        ms = [m for m in ms if m['id'].startswith(a.only) or a.only in (m['property'] if isinstance(m['property'], list) else [m['property']])]
    bad = 0
    with ThreadPoolExecutor(max_workers=a.j) as ex:
        for m, status, note in ex.map(run_one, ms):
            print(f'{status:5} {m["id"]:28} {m.get("expect_rule", m.get("expect", "quiet")):8} {m["note"]}')
            if status != 'PASS': bad += 1; print('      ' + note.replace('\n', '\n      '))
    print(f'{len(ms) - bad}/{len(ms)} mutants behaved as expected')
    sys.exit(1 if bad else 0)

main()
