"""Specification automata for local parts, written from the statements of C02 / C03 (not from the code).

local-part = word *("." word);  word = atom | quoted-string that starts at a word boundary, is closed,
and is followed only by '.' or the end.  atom characters: printable ASCII other than space and the
specials ()<>@,;:\\".[]

Mode parameters (C02):
  822   quoted text admits any ASCII except an unescaped DQUOTE / backslash and a CR that is not followed by
        LF and SP/HT; backslash escapes any ASCII byte.
  5321  no control character anywhere; backslash escapes only printable ASCII (0x20-0x7e).
  5322  quoted text admits controls other than whitespace; an unescaped SP/HT/CR/LF only next to a DQUOTE or
        another whitespace *byte* (before or after it); backslash escapes any ASCII byte.
  bytes >= 0x80 are never accepted (ASCII modes).
Reading choices where the statement is silent (listed in the evidence):
  * 5322 adjacency is judged on bytes: an escaped DQUOTE or escaped whitespace byte counts as a neighbour,
    and the opening DQUOTE counts as the left neighbour of the first content byte;
  * 822: the bytes of an accepted CR LF (SP|HT) fold are ordinary quoted text for whatever follows.
C03 (mode 6531, default build): the 5321 automaton with one more symbol NA (a well-formed non-ASCII
character) admitted as atom and quoted-text character (not after a backslash), ILLFORMED dead."""

SPECIALS = frozenset(b'()<>@,;:\\".[]')
WS = frozenset(b' \t\r\n')
RFC20 = frozenset(b'#^`{|}~')
NA = 0x1000        # NA .. NA+0xFF: a well-formed non-ASCII character (the offset is the class of its code point's low byte)
BAD = 0x2000

def is_na(b):
    return 0x1000 <= b < 0x1100

ATOM_SET = frozenset(b for b in range(0x21, 0x7f) if b not in SPECIALS)
PRINT_SET = frozenset(range(0x20, 0x7f))
CTL_SET = frozenset(list(range(0, 0x20)) + [0x7f])
PREDICATE_SETS = (SPECIALS, WS, ATOM_SET, PRINT_SET, CTL_SET, frozenset([0x22]), frozenset([0x5c]), frozenset([0x2e]),
                  frozenset([0x0d]), frozenset([0x0a]), frozenset([0x20, 0x09]), frozenset(range(0x80, 0x100)), RFC20)


def atom(b, rfc20=False):
    return b in ATOM_SET and not (rfc20 and b in RFC20)


WORD_START, ATOM, Q, QE, AQ, DEAD = 'WORD_START', 'ATOM', 'Q', 'QE', 'AFTER_QUOTE', 'DEAD'


def local_spec(mode, utf8=False, rfc20=False):
    """-> (init, step, accepting, dead).  mode in (822, 5321, 5322)"""
    def step(st, b):
        if st == DEAD or b == BAD: return DEAD
        na = is_na(b)
        if na and not utf8: return DEAD
        if not na and b >= 0x80: return DEAD
        if isinstance(st, tuple):
            tag = st[0]
            if tag == 'CR1': return ('CR2',) if b == 0x0a else DEAD          # 822: CR must be followed by LF ...
            if tag == 'CR2': return Q if b in (0x20, 0x09) else DEAD         # ... and SP / HT
            if tag == 'QW':
                # 5322 inside quotes. prev_adj: previous byte is DQUOTE or whitespace.
                # pending: previous byte is a whitespace that still needs a DQUOTE/whitespace on its right.
                _, prev_adj, pending = st
                if na:
                    return DEAD if pending else ('QW', False, False)
                if pending and not (b == 0x22 or b in WS): return DEAD
                if b == 0x22: return AQ
                if b == 0x5c: return ('QWE',)
                if b in WS: return ('QW', True, not prev_adj)
                return ('QW', False, False)
            if tag == 'QWE':
                if na: return DEAD
                return ('QW', (b == 0x22 or b in WS), False)
        if st == WORD_START:
            if na or atom(b, rfc20): return ATOM
            if b == 0x22: return ('QW', True, False) if mode == 5322 else Q
            return DEAD
        if st == ATOM:
            if na or atom(b, rfc20): return ATOM
            if b == 0x2e: return WORD_START
            return DEAD
        if st == AQ: return WORD_START if b == 0x2e else DEAD
        if st == Q:
            if na: return Q
            if b == 0x22: return AQ
            if b == 0x5c: return QE
            if mode == 5321: return Q if 0x20 <= b <= 0x7e else DEAD
            if mode == 822: return ('CR1',) if b == 0x0d else Q
        if st == QE:
            if na: return DEAD
            if mode == 5321: return Q if 0x20 <= b <= 0x7e else DEAD
            return Q
        return DEAD
    def accepting(st): return st in (ATOM, AQ)
    def dead(st): return st == DEAD
    return WORD_START, step, accepting, dead


READING_CHOICES = [
    '5322 whitespace adjacency is judged on bytes (an escaped DQUOTE/whitespace byte counts as a neighbour; the opening DQUOTE is the left neighbour of the first content byte)',
    '822: the bytes of an accepted CR LF (SP|HT) fold are ordinary quoted text for what follows',
    'quoted-pair: the escaped byte is any ASCII byte 0x01-0x7f (822, 5322) or 0x20-0x7e (5321, 6531); a non-ASCII character cannot be escaped in mode 6531',
]
