"""Specification for host-name domains (C04), written from the statement:
one or more labels separated by single dots, optionally followed by exactly one root dot; each label 1-63
letters, digits and interior hyphens (underscore too under LABELS_ALLOW_UNDERSCORE); at most 253 characters not
counting the root dot; not made solely of digits and dots."""
LETTERS = frozenset(list(range(0x41, 0x5b)) + list(range(0x61, 0x7b)))
DIGITS = frozenset(range(0x30, 0x3a))
PREDICATE_SETS = (LETTERS, DIGITS, frozenset([0x2d]), frozenset([0x2e]), frozenset([0x5f]), frozenset(range(0x80, 0x100)))
MAX_LABEL = 63
MAX_NAME = 253
DEAD = 'DEAD'


def labels_spec(underscore=False):
    """DFA for the label sequence *without* root dot and without the total-length rule.
    state = (length of the current label 0..63, previous byte is '-', a non-digit non-dot byte was seen)"""
    def step(st, b):
        if st == DEAD: return DEAD
        n, hy, nonnum = st
        is_letter = b in LETTERS or (underscore and b == 0x5f)
        if is_letter or b in DIGITS:
            if n + 1 > MAX_LABEL: return DEAD
            return (n + 1, False, nonnum or is_letter)
        if b == 0x2d:
            if n == 0 or n + 1 > MAX_LABEL: return DEAD      # leading hyphen / too long
            return (n + 1, True, True)
        if b == 0x2e:
            if n == 0 or hy: return DEAD                       # empty label / trailing hyphen
            return (0, False, nonnum)
        return DEAD
    def accepting(st): return st != DEAD and st[0] >= 1 and not st[1] and st[2]
    return (0, False, False), step, accepting, (lambda st: st == DEAD)


def valid_domain(s, underscore=False):
    """whole-string reference for short strings: s is a list of byte values"""
    if s and s[-1] == 0x2e and len(s) >= 2: s = s[:-1]
    elif s and s[-1] == 0x2e: pass                              # "." alone: no label at all
    if len(s) > MAX_NAME or not s: return False
    init, step, acc, dead = labels_spec(underscore)
    st = init
    for b in s: st = step(st, b)
    return acc(st)


def phase1_spec(n, lastdot):
    """for n >= 2: ('reject') if too long, else ('scan', strip) where strip says whether the root dot is removed"""
    eff = n - (1 if lastdot else 0)
    if eff > MAX_NAME: return ('reject',)
    return ('scan', lastdot)
