"""Specification automata for address literals (C05), written from the statement.

IPv4 (inside brackets):
  upper bound  U4: four decimal octets of value 0-255 separated by single dots, nothing else
               (an octet is one or more digits; leading zeros do not make a value larger)
  lower bound  L4: every dotted quad of 1-3 digit octets <= 255 whose first octet is non-zero must be accepted
IPv6 (after the "IPv6:" tag, or untagged):
  upper bound  U6: RFC 4291 text forms - 8 groups of 1-4 hex digits separated by ':', or fewer groups with exactly
               one '::' (at most 7 groups); optionally the last 32 bits as a dotted quad (then 6 groups, or at most
               5 groups with '::'); the quad obeys U4
  lower bound  L6: RFC 5321 section 4.1.3 - IPv6-full, IPv6-comp (at most 6 groups besides '::'), IPv6v4-full,
               IPv6v4-comp (at most 4 groups besides '::'), with a quad of 1-3 digit octets <= 255 whose first
               octet is non-zero.
The check is a sandwich: L subset-of L(code) subset-of U."""
DIGITS = frozenset(range(0x30, 0x3a))
HEXLETTERS = frozenset(b'abcdefABCDEF')
DOT, COLON = 0x2e, 0x3a
PREDICATE_SETS = tuple(frozenset([d]) for d in sorted(DIGITS)) + (HEXLETTERS, frozenset([DOT]), frozenset([COLON]), frozenset(range(0x80, 0x100)))
DEAD = 'DEAD'


def v4_dfa(lower):
    """state = (octets completed, digits in the current octet, value (capped at 256), first octet value is zero)
    lower=True: 1-3 digits per octet and non-zero first octet (language that MUST be accepted)
    lower=False: any number of digits, value <= 255 (language that MAY be accepted)"""
    def step(st, b):
        if st == DEAD: return DEAD
        done, nd, val, z = st
        if b in DIGITS:
            nd2 = nd + 1
            if lower and nd2 > 3: return DEAD
            v = min(val * 10 + (b - 0x30), 256)
            if v > 255: return DEAD
            return (done, min(nd2, 4), v, z)
        if b == DOT:
            if nd == 0 or done >= 3: return DEAD
            if lower and done == 0 and val == 0: return DEAD
            return (done + 1, 0, 0, z)
        return DEAD
    def accepting(st): return st != DEAD and st[0] == 3 and st[1] >= 1
    return (0, 0, 0, False), step, accepting, (lambda st: st == DEAD)


def v6_dfa(lower):
    """state = (phase, groups, seen '::', hex digits in current group, [v4 sub-state])
    phases: 'G0' start, 'G' in a hex group, 'C' after a single ':', 'CC' right after '::', 'V4' in the dotted quad.
    A group that turns out to be the first octet of the quad is tracked by keeping, while a group consists of
    decimal digits only (at most 3 for lower / any for upper... a hex group has at most 4 digits), its v4 prefix state."""
    v4i, v4s, v4a, v4d = v4_dfa(lower)
    maxg_comp = 6 if lower else 7          # groups allowed besides '::' (no quad)
    maxg_comp4 = 4 if lower else 5         # groups allowed besides '::' when a quad follows
    def group_limit_ok(groups, comp):
        return groups <= (maxg_comp if comp else 8)
    def step(st, b):
        if st == DEAD: return DEAD
        ph, g, comp, nd, v4 = st
        ishex = b in DIGITS or b in HEXLETTERS
        if ph == 'V4':
            n = v4s(v4, b)
            return DEAD if v4d(n) else ('V4', g, comp, 0, n)
        if ishex:
            if ph in ('G0', 'C', 'CC'):
                # a new group starts
                g2 = g + 1
                if not group_limit_ok(g2, comp): return DEAD
                nv4 = v4s(v4i, b) if b in DIGITS else DEAD
                return ('G', g2, comp, 1, nv4)
            if ph == 'G':
                if nd + 1 > 4: return DEAD
                nv4 = v4s(v4, b) if (b in DIGITS and v4 != DEAD) else DEAD
                return ('G', g, comp, nd + 1, nv4)
        if b == COLON:
            if ph == 'G': return ('C', g, comp, 0, DEAD)
            if ph == 'C' or ph == 'G0p':
                pass
            if ph == 'G0': return ('C0', g, comp, 0, DEAD)            # leading ':' must be followed by ':'
            if ph == 'C0': return ('CC', g, True, 0, DEAD)
            if ph == 'C':
                if comp: return DEAD                                     # second '::'
                if not group_limit_ok(g, True): return DEAD
                return ('CC', g, True, 0, DEAD)
            return DEAD
        if b == DOT:
            # the group just read is the first octet of the quad: it does not count as a hex group
            if ph != 'G' or v4 == DEAD: return DEAD
            hexgroups = g - 1
            if comp:
                if hexgroups > maxg_comp4: return DEAD
            else:
                if hexgroups != 6: return DEAD
            n = v4s(v4, b)
            return DEAD if v4d(n) else ('V4', hexgroups, comp, 0, n)
        return DEAD
    def accepting(st):
        if st == DEAD: return False
        ph, g, comp, nd, v4 = st
        if ph == 'V4': return v4a(v4)
        if ph == 'G': return (g == 8) if not comp else g <= maxg_comp
        if ph == 'CC': return g <= maxg_comp                            # ends with '::'
        return False
    return ('G0', 0, False, 0, DEAD), step, accepting, (lambda st: st == DEAD)


def v6_struct(lower):
    """Structure of an IPv6 address up to (and excluding) a dotted-quad tail.
    state = (phase, hex groups, seen '::', digits in the current group, current group is decimal only)
    On '.', where the statement allows the quad to start (at the beginning of the current group), the automaton stops
    with the verdict ('tail', k): the last k symbols plus the rest of the input must be a dotted quad (judged by the
    IPv4 rules).  lower=True: RFC 5321 limits, and the verdict is only demanded when the group can be a quad's
    first octet (1-3 decimal digits); lower=False: RFC 4291 limits, any group content (the quad rules reject it)."""
    maxg_comp = 6 if lower else 7
    maxg_comp4 = 4 if lower else 5
    def step(st, b):
        if st == DEAD: return DEAD
        ph, g, comp, nd, dec = st
        isdig = b in DIGITS
        if isdig or b in HEXLETTERS:
            if ph in ('G0', 'C', 'CC'):
                g2 = g + 1
                if g2 > (maxg_comp if comp else 8): return DEAD
                return ('G', g2, comp, 1, isdig)
            if ph == 'G':
                if nd + 1 > 4: return DEAD
                return ('G', g, comp, nd + 1, dec and isdig)
            return DEAD
        if b == COLON:
            if ph == 'G': return ('C', g, comp, 0, False)
            if ph == 'G0': return ('C0', g, comp, 0, False)
            if ph == 'C0': return ('CC', g, True, 0, False)
            if ph == 'C':
                if comp or g > maxg_comp: return DEAD
                return ('CC', g, True, 0, False)
            return DEAD
        if b == DOT:
            if ph != 'G': return DEAD
            hexgroups = g - 1
            if comp and hexgroups > maxg_comp4: return DEAD
            if not comp and hexgroups != 6: return DEAD
            if lower and not (dec and nd <= 3): return ('TAIL-OPTIONAL', nd)
            return ('TAIL', nd)
        return DEAD
    def accepting(st):
        if st == DEAD or st[0] in ('TAIL', 'TAIL-OPTIONAL'): return False
        ph, g, comp, nd, dec = st
        if ph == 'G': return (g == 8) if not comp else g <= maxg_comp
        if ph == 'CC': return g <= maxg_comp
        return False
    def terminal(st):
        if st != DEAD and st[0] == 'TAIL': return ('tail', st[1])
        if st != DEAD and st[0] == 'TAIL-OPTIONAL': return ('tail-optional', st[1])
        return None
    return ('G0', 0, False, 0, False), step, accepting, (lambda st: st == DEAD), terminal
